/-
Executable mirror of `space_packet_parser/packets.py`: `create_ccsds_packet`, the header accessors of
`RawPacketData`, and the packet loop of `ccsds_generator` (after the `fix:` commit that makes the loop stop
when its source is exhausted — see DESIGN.md §8-1).
-/
import Spp.Model.Bits
namespace Spp

/-- `RawPacketData.HEADER_LENGTH_BYTES` -/
def HEADER_LENGTH_BYTES : Nat := 6

/-- The trim threshold literal of `ccsds_generator` (`if current_pos > 20_000_000`). -/
def TRIM_THRESHOLD : Nat := 20000000

structure HeaderFields where
  ver : Int
  typ : Int
  shf : Int
  apid : Int
  sf : Int
  sc : Int
deriving Repr, DecidableEq

/-- The 48-bit header word, packed with shifts and ors exactly as the source does. -/
def headerWord (f : HeaderFields) (dataLen : Nat) : Nat :=
  f.ver.toNat <<< (48 - 3) ||| f.typ.toNat <<< (48 - 4) ||| f.shf.toNat <<< (48 - 5) |||
  f.apid.toNat <<< (48 - 16) ||| f.sf.toNat <<< (48 - 18) ||| f.sc.toNat <<< (48 - 32) ||| (dataLen - 1)

/-- `create_ccsds_packet`: the seven range checks in source order, then packing; `none` is `ValueError`
    (nothing is constructed). -/
def createPacket (f : HeaderFields) (data : Bytes) : Option Bytes :=
  if f.ver < 0 ∨ f.ver > 7 then none
  else if f.typ < 0 ∨ f.typ > 1 then none
  else if f.shf < 0 ∨ f.shf > 1 then none
  else if f.apid < 0 ∨ f.apid > 2047 then none
  else if f.sf < 0 ∨ f.sf > 3 then none
  else if f.sc < 0 ∨ f.sc > 16383 then none
  else if data.length < 1 ∨ data.length > 65536 then none
  else some (toBytesBE HEADER_LENGTH_BYTES (headerWord f data.length) ++ data)

structure HeaderValues where
  ver : Except BitErr Nat
  typ : Except BitErr Nat
  shf : Except BitErr Nat
  apid : Except BitErr Nat
  sf : Except BitErr Nat
  sc : Except BitErr Nat
  dataLength : Int

/-- The seven header accessors of `RawPacketData` (`header_values`). -/
def headerValues (p : Bytes) : HeaderValues :=
  { ver := extractBits p 0 3, typ := extractBits p 3 1, shf := extractBits p 4 1,
    apid := extractBits p 5 11, sf := extractBits p 16 2, sc := extractBits p 18 14,
    dataLength := (p.length : Int) - HEADER_LENGTH_BYTES - 1 }

/-! ### The framer: `ccsds_generator` -/

structure FrameCfg where
  skip : Nat     -- `skip_header_bytes`
  trim : Nat     -- the `20_000_000` literal (a parameter so that theorems hold for every threshold)

def sumLen : List Bytes → Nat
  | [] => 0
  | c :: cs => c.length + sumLen cs

/-- `while len(buf) - pos < need: r = read(); if not r: break; buf += r`.
    The source is the list of results successive `read`/`recv` calls will return; `[]` = it returns `b""`. -/
def refill (need pos : Nat) : Bytes → List Bytes → Bytes × List Bytes
  | buf, [] => (buf, [])
  | buf, c :: cs =>
    if buf.length - pos < need then
      if c.isEmpty then (buf, cs) else refill need pos (buf ++ c) cs
    else (buf, c :: cs)

/-- `_extract_bits(header_bytes, 32, 16)` on a full 6-byte header. -/
def be16 (bs : Bytes) : Nat := fromBytesBE ((bs.drop 4).take 2)

structure FrameSt where
  buf : Bytes                -- `read_buffer`
  pos : Nat                  -- `current_pos`
  src : List Bytes           -- what the source will still deliver
  parsed : Nat               -- `n_bytes_parsed`
  total : Option Nat         -- `total_length_bytes` (`none` for a socket)

def FrameSt.mu (s : FrameSt) : Nat := s.buf.length - s.pos + sumLen s.src

/-- `if current_pos > 20_000_000: read_buffer = read_buffer[current_pos:]; current_pos = 0` -/
def trimBuf (cfg : FrameCfg) (buf : Bytes) (pos : Nat) : Bytes × Nat :=
  if pos > cfg.trim then (buf.drop pos, 0) else (buf, pos)

/-- `if total_length_bytes and n_bytes_parsed == total_length_bytes: break` -/
def stopNow (st : FrameSt) : Bool :=
  match st.total with | some t => t != 0 && st.parsed == t | none => false

/-- Body of one loop iteration after the optional trim. -/
def stepBody (skip : Nat) (buf0 : Bytes) (pos0 : Nat) (src : List Bytes) (parsed : Nat) (total : Option Nat) :
    Option (Bytes × FrameSt) :=
  let r1 := refill (skip + 6) pos0 buf0 src
  if r1.1.length - pos0 < skip + 6 then none
  else
    let pos1 := pos0 + skip
    let n := 6 + (be16 ((r1.1.drop pos1).take 6) + 1)
    let r2 := refill n pos1 r1.1 r1.2
    if r2.1.length - pos1 < n then none
    else
      some ((r2.1.drop pos1).take n,
            { buf := r2.1, pos := pos1 + n, src := r2.2, parsed := parsed + skip + n, total := total })

/-- One iteration of the packet loop. `none` = the generator stops. -/
def frameStep (cfg : FrameCfg) (st : FrameSt) : Option (Bytes × FrameSt) :=
  if stopNow st then none
  else stepBody cfg.skip (trimBuf cfg st.buf st.pos).1 (trimBuf cfg st.buf st.pos).2 st.src st.parsed st.total

theorem refill_len (need pos : Nat) (buf : Bytes) (src : List Bytes) :
    (refill need pos buf src).1.length + sumLen (refill need pos buf src).2 = buf.length + sumLen src := by
  induction src generalizing buf with
  | nil => simp [refill]
  | cons c cs ih =>
    unfold refill
    split
    · split
      · rename_i h; simp [sumLen, List.isEmpty_iff.mp h]
      · rw [ih]; simp [sumLen]; omega
    · rfl

theorem trimBuf_len (cfg : FrameCfg) (buf : Bytes) (pos : Nat) :
    (trimBuf cfg buf pos).1.length - (trimBuf cfg buf pos).2 = buf.length - pos := by
  unfold trimBuf; split <;> simp

theorem stepBody_mu {skip pos0 parsed : Nat} {buf0 : Bytes} {src : List Bytes} {total : Option Nat}
    {st' : FrameSt} {pkt : Bytes} (h : stepBody skip buf0 pos0 src parsed total = some (pkt, st')) :
    st'.mu + (skip + 7) ≤ buf0.length - pos0 + sumLen src := by
  unfold stepBody at h
  simp only at h
  split at h
  · contradiction
  · split at h
    · contradiction
    · rename_i h1 h2
      injection h with h
      injection h with _ h
      subst h
      simp only [FrameSt.mu]
      have e1 := refill_len (skip + 6) pos0 buf0 src
      generalize refill (skip + 6) pos0 buf0 src = r1 at *
      have hn7 : 7 ≤ 6 + (be16 ((r1.1.drop (pos0 + skip)).take 6) + 1) := by omega
      generalize 6 + (be16 ((r1.1.drop (pos0 + skip)).take 6) + 1) = n at *
      have e2 := refill_len n (pos0 + skip) r1.1 r1.2
      generalize refill n (pos0 + skip) r1.1 r1.2 = r2 at *
      omega

theorem frameStep_mu {cfg : FrameCfg} {st st' : FrameSt} {pkt : Bytes} (h : frameStep cfg st = some (pkt, st')) :
    st'.mu + (cfg.skip + 7) ≤ st.mu := by
  unfold frameStep at h
  split at h
  · contradiction
  · have := stepBody_mu h
    rw [trimBuf_len] at this
    exact this

/-- The whole generator: the list of packets it yields before stopping.  That this is a total function —
    the recursion is well-founded on `|buf| − pos + Σ|pending reads|` — is the termination half of C10. -/
def frame (cfg : FrameCfg) (st : FrameSt) : List Bytes :=
  match h : frameStep cfg st with
  | none => []
  | some (pkt, st') => pkt :: frame cfg st'
termination_by st.mu
decreasing_by have := frameStep_mu h; omega

/-- Initial generator state for the three source kinds.  `bytes`: the buffer is pre-filled and the reader
    returns `b""`; file: empty buffer, known total; socket: empty buffer, unknown total. -/
def initBytes (data : Bytes) : FrameSt := { buf := data, pos := 0, src := [], parsed := 0, total := some data.length }
def initFile (chunks : List Bytes) (total : Nat) : FrameSt := { buf := [], pos := 0, src := chunks, parsed := 0, total := some total }
def initSocket (chunks : List Bytes) : FrameSt := { buf := [], pos := 0, src := chunks, parsed := 0, total := none }

end Spp
