/-
Executable mirror of the XML-reading side of the library: every `from_xml`, `XtcePacketDefinition.from_xtce`
and the cache filling of `XtcePacketDefinition.__init__` (after the `fix:` commit that iterates element children
of a ContextCalibratorList — DESIGN.md §8-14).  Documents are abstract `XmlNode` trees.
-/
import Spp.Model.Xml
import Spp.Model.Definition
namespace Spp

abbrev LoadM := Except Err

/-! ### literals -/

def readInt (s : String) : LoadM Int :=
  match parseIntLit s with
  | .ok i => .ok i | .invalid => .error .value | .unsupported => .error .unsupported

/-- `int(element.text)` where the text may be absent (`int(None)`: TypeError). -/
def readIntOpt : Option String → LoadM Int
  | some s => readInt s
  | none => .error .other

def readFloat (s : String) : LoadM FVal :=
  match parseFloatLit s with
  | .ok f => .ok f | .invalid => .error .value | .unsupported => .error .unsupported

/-- A float that calibrator arithmetic can use (finite). -/
def readRat (s : String) : LoadM Rat := do
  match (← readFloat s) with
  | .fin q => pure q
  | .negZero => pure 0
  | _ => throw .unsupported

/-- An `xs:boolean` attribute: `true` / `1` (any letter case for the word, surrounding whitespace ignored) mean true
    (after the `fix:` commit recorded in DESIGN.md §14; before it only the word `true` did). -/
def isTrueWord (s : String) : Bool :=
  let t := stripWs s.toList
  (String.ofList t).toLower == "true" || t == ['1']

/-- `'x' in attrib and attrib['x'].lower() == 'true'`, with a default when absent. -/
def boolAttr (x : XmlNode) (k : String) (dflt : Bool) : Bool :=
  match x.attr? k with | some v => isTrueWord v | none => dflt

/-! ### criteria -/

def loadComparison (x : XmlNode) : LoadM Comparison := do
  let useCal := boolAttr x "useCalibratedValue" true
  let value ← x.attr! "value"
  let ref ← x.attr! "parameterRef"
  let op := (x.attr? "comparisonOperator").getD "=="
  if (lookupOp op).isNone then throw .value            -- `_validate`
  pure { requiredValue := value, ref := ref, op := op, useCal := useCal }

def loadParamInstanceRef (x : XmlNode) : LoadM (String × Bool) := do
  let n ← x.attr! "parameterRef"
  pure (n, boolAttr x "useCalibratedValue" true)

/-- The operands of a Condition: one ParameterInstanceRef and a Value, or two ParameterInstanceRefs. -/
def condFromParts (op : String) (params : List XmlNode) (valueText : Option (Option String)) : LoadM Condition :=
  match params with
  | [p] =>
    match loadParamInstanceRef p with
    | .error e => .error e
    | .ok (l, lc) =>
      match valueText with
      | none => .error .other
      | some vt =>
        if (lookupOp op).isNone then .error .value
        -- right_value may be None/empty (falsy): then no check fires
        -- an empty `<Value/>` has no text (lxml: None) and stands for the empty literal (after the `fix:` commit in DESIGN §14)
        else .ok { left := l, op := op, rightParam := none, rightValue := some (vt.getD ""), leftCal := lc, rightCal := false }
  | [p, q] =>
    match loadParamInstanceRef p with
    | .error e => .error e
    | .ok (l, lc) =>
      match loadParamInstanceRef q with
      | .error e => .error e
      | .ok (r, rc) =>
        if (lookupOp op).isNone then .error .value
        else .ok { left := l, op := op, rightParam := some r, rightValue := none, leftCal := lc, rightCal := rc }
  | _ => .error .value

def loadCondition (ens : Option String) (x : XmlNode) : LoadM Condition :=
  match findFirst ens [step "ComparisonOperator"] x with
  | none => .error .other                               -- `None.text`
  | some opEl =>
    match opEl.text with
    | none => .error .value                             -- `None not in table`: ValueError
    | some op =>
      condFromParts op (findAll ens [step "ParameterInstanceRef"] x)
        ((findFirst ens [step "Value"] x).map (·.text))

mutual
def loadAnded (ens : Option String) : Nat → XmlNode → LoadM Anded
  | 0, _ => .error .unsupported
  | fuel + 1, x => do
    let conds ← (findAll ens [step "Condition"] x).mapM (loadCondition ens)
    let ors ← (findAll ens [step "ORedConditions"] x).mapM (loadOred ens fuel)
    pure (.mk conds ors)
def loadOred (ens : Option String) : Nat → XmlNode → LoadM Ored
  | 0, _ => .error .unsupported
  | fuel + 1, x => do
    let conds ← (findAll ens [step "Condition"] x).mapM (loadCondition ens)
    let ands ← (findAll ens [step "ANDedConditions"] x).mapM (loadAnded ens fuel)
    pure (.mk conds ands)
end

def FUEL : Nat := 64

def loadBoolExpr (ens : Option String) (x : XmlNode) : LoadM BoolExpr :=
  match findFirst ens [step "Condition"] x with
  | some c => do pure (.cond (← loadCondition ens c))
  | none => match findFirst ens [step "ANDedConditions"] x with
    | some a => do pure (.anded (← loadAnded ens FUEL a))
    | none => match findFirst ens [step "ORedConditions"] x with
      | some o => do pure (.ored (← loadOred ens FUEL o))
      | none => .error .value

def loadDiscreteLookup (ens : Option String) (x : XmlNode) : LoadM DiscreteLookup := do
  let v ← readFloat (← x.attr! "value")
  let crit ← match findFirst ens [step "ComparisonList"] x with
    | some l => l.elems.mapM loadComparison
    | none => match findFirst ens [step "Comparison"] x with
      | some c => do pure [← loadComparison c]
      | none => throw Err.other                      -- NotImplementedError
  pure { criteria := crit, value := .flt v }

/-- The three criteria forms of a RestrictionCriteria / ContextMatch element. -/
def loadMatchCriteria (ens : Option String) (onlyComparisonChildren : Bool) (x : XmlNode) : LoadM (List Criterion) :=
  match findFirst ens [step "ComparisonList"] x with
  | some l => do
    let els := if onlyComparisonChildren then findAll ens [step "Comparison"] l else l.elems
    pure ((← els.mapM loadComparison).map Criterion.comparison)
  | none => match findFirst ens [step "Comparison"] x with
    | some c => do pure [.comparison (← loadComparison c)]
    | none => match findFirst ens [step "BooleanExpression"] x with
      | some b => do pure [.boolExpr (← loadBoolExpr ens b)]
      | none => .error .other

/-! ### calibrators -/

def loadSplinePoint (p : XmlNode) : LoadM SplinePoint := do
  let r ← readRat (← p.attr! "raw")
  let c ← readRat (← p.attr! "calibrated")
  pure { raw := r, cal := c }

def loadTerm (t : XmlNode) : LoadM PolyTerm := do
  let c ← readRat (← t.attr! "coefficient")
  let e ← readInt (← t.attr! "exponent")
  pure { coef := c, exp := e }

def loadSpline (x : XmlNode) : LoadM Calibrator := do
  let pts ← x.elems.mapM loadSplinePoint
  let order ← match x.attr? "order" with | some o => readInt o | none => pure 0
  let extrapolate := boolAttr x "extrapolate" false
  if order > 1 then throw .other                      -- NotImplementedError
  pure (.spline { points := sortPoints pts, order := order, extrapolate := extrapolate })

def loadPoly (x : XmlNode) : LoadM Calibrator := do
  let ts ← x.elems.mapM loadTerm
  pure (.poly ts)

def loadContextCalibrator (ens : Option String) (x : XmlNode) : LoadM ContextCalibrator := do
  let cm ← match findFirst ens [step "ContextMatch"] x with | some e => pure e | none => throw Err.other
  let crit ← loadMatchCriteria ens true cm
  let cal ← match findFirst ens [step "Calibrator", step "SplineCalibrator"] x with
    | some e => loadSpline e
    | none => match findFirst ens [step "Calibrator", step "PolynomialCalibrator"] x with
      | some e => loadPoly e
      | none => throw Err.other
  pure { criteria := crit, calibrator := cal }

def loadDefaultCalibrator (ens : Option String) (x : XmlNode) : LoadM (Option Calibrator) :=
  match findFirst ens [step "DefaultCalibrator", step "SplineCalibrator"] x with
  | some e => do pure (some (← loadSpline e))
  | none => match findFirst ens [step "DefaultCalibrator", step "PolynomialCalibrator"] x with
    | some e => do pure (some (← loadPoly e))
    | none => match findFirst ens [step "DefaultCalibrator", step "MathOperationCalibrator"] x with
      | some _ => .error .other
      | none => .ok none

/-- `get_context_calibrators`; the boolean records whether a ContextCalibratorList element was present. -/
def loadContextCalibrators (ens : Option String) (x : XmlNode) : LoadM (Option (List ContextCalibrator)) :=
  match findFirst ens [step "ContextCalibratorList"] x with
  | some l => do pure (some (← l.elems.mapM (loadContextCalibrator ens)))
  | none => .ok none

/-! ### encodings -/

def loadLinearAdjuster (ens : Option String) (x : XmlNode) : LoadM (Option LinAdj) :=
  match findFirst ens [step "LinearAdjustment"] x with
  | some e => do
    let s ← match e.attr? "slope" with | some v => readInt v | none => pure 0
    let i ← match e.attr? "intercept" with | some v => readInt v | none => pure 0
    pure (some { slope := s, intercept := i })
  | none => .ok none

def loadIntEncoding (ens : Option String) (x : XmlNode) : LoadM Encoding := do
  let size ← readInt (← x.attr! "sizeInBits")
  let enc := (x.attr? "encoding").getD "unsigned"
  let bo := (x.attr? "byteOrder").getD "mostSignificantByteFirst"
  let d ← loadDefaultCalibrator ens x
  let c ← loadContextCalibrators ens x
  pure (.num { isFloat := false, size := size, encoding := enc, byteOrder := bo,
               cals := { default := d, contexts := c.getD [] } })

def loadFloatEncoding (ens : Option String) (x : XmlNode) : LoadM Encoding := do
  let size ← readInt (← x.attr! "sizeInBits")
  let enc0 := (x.attr? "encoding").getD "IEEE754"
  let bo := (x.attr? "byteOrder").getD "mostSignificantByteFirst"
  let d ← loadDefaultCalibrator ens x
  let c ← loadContextCalibrators ens x
  -- constructor validation
  let enc := normFloatEncoding enc0
  if !(["IEEE754_1985", "IEEE754", "MILSTD_1750A", "DEC", "IBM", "TI"].contains enc) then throw .value
  if !(["IEEE754_1985", "IEEE754", "MILSTD_1750A"].contains enc) then throw .other   -- NotImplementedError
  if enc == "MILSTD_1750A" && size != 32 then throw .value
  if enc != "MILSTD_1750A" && !(size == 16 || size == 32 || size == 64) then throw .value
  pure (.num { isFloat := true, size := size, encoding := enc, byteOrder := bo,
               cals := { default := d, contexts := c.getD [] } })

def SUPPORTED_STRING_ENCODINGS : List String :=
  ["US-ASCII", "ISO-8859-1", "Windows-1252", "UTF-8", "UTF-16", "UTF-16LE", "UTF-16BE", "UTF-32", "UTF-32LE", "UTF-32BE"]

def singleByteEncodings : List String := ["US-ASCII", "ISO-8859-1", "Windows-1252", "UTF-8"]

/-- Value of a hexadecimal digit. -/
def hexVal (c : Char) : Option Nat :=
  if c.isDigit then some (c.toNat - 48)
  else if 'a' ≤ c ∧ c ≤ 'f' then some (c.toNat - 87) else if 'A' ≤ c ∧ c ≤ 'F' then some (c.toNat - 55) else none

def hexPairs : List Char → Option Bytes
  | [] => some []
  | [_] => none
  | a :: b :: rest =>
    match hexVal a, hexVal b, hexPairs rest with
    | some x, some y, some r => some (UInt8.ofNat (x * 16 + y) :: r)
    | _, _, _ => none

/-- `bytes.fromhex(s)` (ASCII whitespace is skipped). -/
def hexToBytes (s : String) : Option Bytes :=
  hexPairs (s.toList.filter (fun c => !(c == ' ' || c == '\t' || c == '\n')))

/-- `sub in s` for strings. -/
def hasSubList (sub : List Char) : List Char → Bool
  | [] => sub.isEmpty
  | c :: t => sub.isPrefixOf (c :: t) || hasSubList sub t

def hasSub (s sub : String) : Bool := hasSubList sub.toList s.toList

/-- `StringDataEncoding.__init__` validation (the constructor arguments are the fields of `StrEnc` plus the raw
    termination-character hex string). -/
def mkStrEnc (encoding : String) (byteOrder : Option String) (fixed : Option Int) (dyn : Option String)
    (lookup : Option (List DiscreteLookup)) (useCal : Bool) (adj : Option LinAdj) (termHex : Option String)
    (leading : Option Int) : LoadM StrEnc := do
  if !(SUPPORTED_STRING_ENCODINGS.contains encoding) then throw .value
  -- byte order bookkeeping (what the object records; see DESIGN.md §8-6)
  let bo : Option String ←
    if !(singleByteEncodings.contains encoding) then
      match byteOrder with
      | none =>
        if hasSub encoding "LE" then pure (some "leastSignificantByteFirst")
        else if hasSub encoding "BE" then pure (some "mostSignificantByteFirst")
        else throw Err.value
      | some b => if !(b == "leastSignificantByteFirst" || b == "mostSignificantByteFirst")
                  then throw Err.value else pure (some b)
    else
      match byteOrder with
      | some b => if b != "" && !(b == "leastSignificantByteFirst" || b == "mostSignificantByteFirst")
                  then throw Err.value else pure (some b)
      | none => pure none
  let termTruthy := match termHex with | some t => !t.isEmpty | none => false
  if termTruthy && optTruthy leading then throw .value
  let specs := (if strTruthy dyn then 1 else 0) + (if listTruthy lookup then 1 else 0) + (if optTruthy fixed then 1 else 0)
  if specs != 1 then throw .value
  if adj.isSome && !(strTruthy dyn) then throw .value
  let term : Option Bytes ←
    if termTruthy then
      match hexToBytes (termHex.getD "") with
      | none => throw Err.value
      | some bs =>
        let codec := if encoding == "UTF-16" || encoding == "UTF-32"
          then encoding ++ (if bo == some "leastSignificantByteFirst" then "LE" else "BE") else encoding
        match decodeText codec bs with
        | some s => if s.length != 1 then throw Err.value else pure (some bs)
        | none => throw Err.value
    else pure none
  pure { encoding := encoding, fixedLength := fixed, dynRef := dyn, lookup := lookup, useCal := useCal,
         adjuster := adj, termChar := term, leadingSize := leading, byteOrder := bo }

/-- The element that carries the size specification (and the termination character / leading size). -/
def strSizeEl (ens : Option String) (x : XmlNode) : Option XmlNode :=
  match findFirst ens [step "SizeInBits"] x with
  | some se => some se
  | none => findFirst ens [step "Variable"] x

/-- A `(parameterRef, useCalibratedValue, LinearAdjustment)` size reference below a `DynamicValue` element. -/
def loadDynamicValue (ens : Option String) (dv : XmlNode) : LoadM (String × Bool × Option LinAdj) :=
  match findFirst ens [step "ParameterInstanceRef"] dv with
  | none => .error .other
  | some pir =>
    match pir.attr! "parameterRef" with
    | .error e => .error e
    | .ok ref =>
      match loadLinearAdjuster ens dv with
      | .error e => .error e
      | .ok adj => .ok (ref, isTrueWord ((pir.attr? "useCalibratedValue").getD "true"), adj)

/-- The size specification of a string encoding: (fixed, dynamic reference, use calibrated, adjuster, lookup). -/
def loadStrSpec (ens : Option String) (x : XmlNode) :
    LoadM (Option Int × Option String × Bool × Option LinAdj × Option (List DiscreteLookup)) :=
  match findFirst ens [step "SizeInBits"] x with
  | some se =>
    match findFirst ens [step "Fixed", step "FixedValue"] se with
    | some e => match readIntOpt e.text with
      | .ok fv => .ok (some fv, none, true, none, none)
      | .error err => .error err
    | none => .error .other
  | none => match findFirst ens [step "Variable"] x with
    | some ve =>
      match findFirst ens [step "DynamicValue"] ve with
      | some dv => match loadDynamicValue ens dv with
        | .ok (ref, uc, adj) => .ok (none, some ref, uc, adj, none)
        | .error err => .error err
      | none => match findFirst ens [step "DiscreteLookupList"] ve with
        | some dl => match dl.elems.mapM (loadDiscreteLookup ens) with
          | .ok l => .ok (none, none, true, none, some l)
          | .error err => .error err
        | none => .error .value
    | none => .error .value

/-- Termination character (hex text) and leading size, children of the size element. -/
def loadStrTail (ens : Option String) (sizeEl : XmlNode) : LoadM (Option String × Option Int) :=
  let termHex := (findFirst ens [step "TerminationChar"] sizeEl).bind (·.text)
  match findFirst ens [step "LeadingSize"] sizeEl with
  | some e => match e.attr! "sizeInBitsOfSizeTag" with
    | .error err => .error err
    | .ok v => match readInt v with
      | .error err => .error err
      | .ok n => .ok (termHex, some n)
  | none => .ok (termHex, none)

/-- The `byteOrder` attribute is read (and required) for a multi-byte encoding whose name does not end in BE / LE. -/
def readStrByteOrder (x : XmlNode) (encoding : String) : LoadM (Option String) :=
  if !(singleByteEncodings.contains encoding) && !(encoding.endsWith "BE" || encoding.endsWith "LE") then
    match x.attr? "byteOrder" with
    | some b => pure (some b)
    | none => throw Err.value
  else pure none

def loadStringEncoding (ens : Option String) (x : XmlNode) : LoadM Encoding := do
  let encoding := (x.attr? "encoding").getD "UTF-8"
  let byteOrder : Option String ← readStrByteOrder x encoding
  let (fixed, dyn, useCal, adj, lookup) ← loadStrSpec ens x
  let (termHex, leading) ← match strSizeEl ens x with
    | some sizeEl => loadStrTail ens sizeEl
    | none => throw Err.value
  let se ← mkStrEnc encoding byteOrder fixed dyn lookup useCal adj termHex leading
  pure (.str se)

def loadBinaryEncoding (ens : Option String) (x : XmlNode) : LoadM Encoding :=
  match findFirst ens [step "SizeInBits", step "FixedValue"] x with
  | some e => do
    let n ← readIntOpt e.text
    pure (.bin { fixedSize := some n, sizeRef := none, useCal := true, lookup := none, adjuster := none })
  | none => match findFirst ens [step "SizeInBits", step "DynamicValue"] x with
    | some dv => do
      let (ref, uc, adj) ← loadDynamicValue ens dv
      pure (.bin { fixedSize := none, sizeRef := some ref, useCal := uc, lookup := none, adjuster := adj })
    | none => match findFirst ens [step "SizeInBits", step "DiscreteLookupList"] x with
      | some dl => do
        let l ← dl.elems.mapM (loadDiscreteLookup ens)
        pure (.bin { fixedSize := none, sizeRef := none, useCal := true, lookup := some l, adjuster := none })
      | none => .error .value

/-- `ParameterType.get_data_encoding`: the first of String / Integer / Float / Binary data encoding found anywhere
    below the type element. -/
def loadDataEncoding (ens : Option String) (x : XmlNode) : LoadM Encoding :=
  match findDescendant ens "StringDataEncoding" x with
  | some e => loadStringEncoding ens e
  | none => match findDescendant ens "IntegerDataEncoding" x with
    | some e => loadIntEncoding ens e
    | none => match findDescendant ens "FloatDataEncoding" x with
      | some e => loadFloatEncoding ens e
      | none => match findDescendant ens "BinaryDataEncoding" x with
        | some e => loadBinaryEncoding ens e
        | none => .error .value

/-! ### parameter types, parameters -/

structure LPType where
  tag : String                       -- class: the element's local name
  name : String
  unit : Option String
  enc : Encoding
  enumeration : List (PyVal × String) := []
  epoch : Option String := none
  offsetFrom : Option String := none

def PARAMETER_TYPE_TAGS : List String :=
  ["StringParameterType", "IntegerParameterType", "FloatParameterType", "EnumeratedParameterType",
   "BinaryParameterType", "BooleanParameterType", "AbsoluteTimeParameterType", "RelativeTimeParameterType"]

/-- `ParameterType.get_units` -/
def loadUnits (ens : Option String) (x : XmlNode) : LoadM (Option String) :=
  match findAll ens [step "UnitSet", step "Unit"] x with
  | [] => .ok none
  | [u] => match u.text with
    | some t => .ok (some t)
    | none => .error .other                     -- `" ".join([None])`: TypeError
  | _ => .error .other                          -- NotImplementedError

/-- Insert into a Python dict built by a comprehension: a repeated key keeps its position and takes the new value. -/
def dictSet (d : List (PyVal × String)) (k : PyVal) (v : String) : List (PyVal × String) :=
  if d.any (fun kv => pyEq kv.1 k) then d.map (fun kv => if pyEq kv.1 k then (kv.1, v) else kv) else d ++ [(k, v)]

def asciiBytes (s : String) : Option Bytes :=
  if s.toList.all (fun c => c.toNat < 128) then some (s.toList.map (fun c => UInt8.ofNat c.toNat)) else none

/-- The dictionary key of one `<Enumeration value=…>` entry: a number for numeric encodings, bytes for string ones. -/
def enumKey (enc : Encoding) (s : String) : LoadM PyVal :=
  match enc with
  | .num e => if e.isFloat then do pure (.flt (← readFloat s)) else do pure (.int (← readInt s))
  -- `bytes(value, encoding=<the codec the field is decoded with>)` (after the `fix:` commit recorded in DESIGN.md §14)
  | .str e => match encodeAsciiText e.codec s with | some b => pure (.bytes b) | none => throw Err.unsupported
  | .bin _ => throw Err.value

/-- One `<Enumeration>` entry added to the dictionary. -/
def enumStep (enc : Encoding) (d : List (PyVal × String)) (el : XmlNode) : LoadM (List (PyVal × String)) := do
  let k ← enumKey enc (← el.attr! "value")
  let lab ← el.attr! "label"
  pure (dictSet d k lab)

def loadEnumeration (ens : Option String) (x : XmlNode) (enc : Encoding) : LoadM (List (PyVal × String)) := do
  let l ← match findFirst ens [step "EnumerationList"] x with | some e => pure e | none => throw Err.value
  match enc with
  | .bin _ => throw Err.value
  | _ => pure ()
  l.elems.foldlM (enumStep enc) []

def loadParameterType (ens : Option String) (x : XmlNode) : LoadM LPType := do
  let tag := x.tag
  if !(PARAMETER_TYPE_TAGS.contains tag) then throw .other          -- InvalidParameterTypeError / NotImplementedError
  if tag == "AbsoluteTimeParameterType" || tag == "RelativeTimeParameterType" then
    let name ← x.attr! "name"
    let encEl := findFirst ens [step "Encoding"] x
    let unit := match encEl with | some e => e.attr? "units" | none => none
    let enc ← loadDataEncoding ens x
    -- `get_time_unit_linear_scaler`: AttributeError when there is no Encoding element
    let ee ← match encEl with | some e => pure e | none => throw Err.other
    let offset ← match ee.attr? "offset" with | some o => do pure (some (← readRat o)) | none => pure none
    let scale ← match ee.attr? "scale" with | some s => do pure (some (← readRat s)) | none => pure none
    let coeffs : List PolyTerm :=
      (match offset with | some o => [{ coef := o, exp := 0 }] | none => []) ++
      (match scale with
       | some s => [{ coef := s, exp := 1 }]
       | none => match offset with | some _ => [{ coef := 1, exp := 1 }] | none => [])   -- the float 1.0
    let enc ← match enc, coeffs with
      | e, [] => pure e
      | .num ne, cs => pure (Encoding.num { ne with cals := { ne.cals with default := some (.poly cs) } })
      | e, _ => pure e                    -- attribute set on a non-numeric encoding object: harmless, unused
    let epoch := (findFirst ens [step "ReferenceTime", step "Epoch"] x).bind (·.text)
    let offsetFrom ← match findFirst ens [step "ReferenceTime", step "OffsetFrom"] x with
      | some e => do pure (some (← e.attr! "parameterRef"))
      | none => pure none
    pure { tag := tag, name := name, unit := unit, enc := enc, epoch := epoch, offsetFrom := offsetFrom }
  else if tag == "EnumeratedParameterType" then
    let name ← x.attr! "name"
    let unit ← loadUnits ens x
    let enc ← loadDataEncoding ens x
    let en ← loadEnumeration ens x enc
    pure { tag := tag, name := name, unit := unit, enc := enc, enumeration := en }
  else
    let name ← match x.attr? "name" with | some n => pure n | none => throw Err.value
    let unit ← loadUnits ens x
    let enc ← loadDataEncoding ens x
    -- class-specific constructor checks
    match tag, enc with
    | "StringParameterType", .str _ => pure ()
    | "StringParameterType", _ => throw Err.value
    | "BinaryParameterType", .bin _ => pure ()
    | "BinaryParameterType", _ => throw Err.value
    | _, _ => pure ()
    pure { tag := tag, name := name, unit := unit, enc := enc }

structure LParam where
  name : String
  typeName : String
  shortDesc : Option String
  longDesc : Option String
deriving DecidableEq, Repr

def loadParameter (ens : Option String) (types : List (String × LPType)) (x : XmlNode) : LoadM LParam := do
  let name ← x.attr! "name"
  let tn ← x.attr! "parameterTypeRef"
  if !(types.any (·.1 == tn)) then throw .other                   -- KeyError
  let ld := (findFirst ens [step "LongDescription"] x).bind (·.text)
  pure { name := name, typeName := tn, shortDesc := x.attr? "shortDescription", longDesc := ld }

/-! ### containers -/

inductive LEntry
  | param (name : String)
  | cont (name : String)
deriving DecidableEq, Repr

structure LContainer where
  name : String
  entries : List LEntry
  shortDesc : Option String
  longDesc : Option String
  base : Option String
  criteria : List Criterion
  abstract : Bool
  inheritors : List String := []

abbrev CLookup := List (String × LContainer)

def CLookup.get? (l : CLookup) (n : String) : Option LContainer := (l.find? (·.1 == n)).map (·.2)

/-- `container_lookup[name] = c` (dict assignment: an existing key keeps its position). -/
def CLookup.set (l : CLookup) (n : String) (c : LContainer) : CLookup :=
  if l.any (·.1 == n) then l.map (fun kv => if kv.1 == n then (n, c) else kv) else l ++ [(n, c)]

/-- `SequenceContainer._get_container_element(tree, name)`: exactly one match, else ValueError. -/
def getContainerElement (ens : Option String) (root : XmlNode) (name : String) : LoadM XmlNode :=
  match findFirst ens [step "TelemetryMetaData", step "ContainerSet"] root with
  | none => .error .other
  | some cs => match findAll ens [{ tag := "SequenceContainer", nameEq := some name }] cs with
    | [e] => .ok e
    | _ => .error .value

/-- The restriction criteria of a `BaseContainer` element (none when there is no `RestrictionCriteria`). -/
def loadRestriction (ens : Option String) (bc : XmlNode) : LoadM (List Criterion) :=
  match findFirst ens [step "RestrictionCriteria"] bc with
  | none => .ok []
  | some rc =>
    match findFirst ens [step "ComparisonList"] rc with
    | some l => match l.elems.mapM loadComparison with
      | .ok cs => .ok (cs.map Criterion.comparison)
      | .error e => .error e
    | none => match findFirst ens [step "Comparison"] rc with
      | some c => match loadComparison c with
        | .ok c => .ok [Criterion.comparison c]
        | .error e => .error e
      | none => match findFirst ens [step "BooleanExpression"] rc with
        | some b => match loadBoolExpr ens b with
          | .ok e => .ok [Criterion.boolExpr e]
          | .error e => .error e
        | none => match findFirst ens [step "CustomAlgorithm"] rc with
          | some _ => .error .other
          | none => .error .value

abbrev ContRec := CLookup → XmlNode → LoadM (LContainer × CLookup)

/-- The `BaseContainer` part of `SequenceContainer.from_xml`: criteria, the base container's name, and the base
    container itself parsed first (through `rec`) when it is not in the lookup yet. -/
def loadBaseWith (ens : Option String) (root : XmlNode) (rec : ContRec) (lookup : CLookup) (x : XmlNode) :
    LoadM (Option String × List Criterion × CLookup) :=
  match findFirst ens [step "BaseContainer"] x with
  | none => .ok (none, [], lookup)
  | some bc =>
    match loadRestriction ens bc with
    | .error e => .error e
    | .ok crit =>
      match bc.attr! "containerRef" with
      | .error e => .error e
      | .ok ref =>
        match getContainerElement ens root ref with
        | .error e => .error e
        | .ok bEl =>
          match bEl.attr! "name" with
          | .error e => .error e
          | .ok bName =>
            if lookup.any (·.1 == bName) then .ok (some bName, crit, lookup)
            else match rec lookup bEl with
              | .error e => .error e
              | .ok (b, lk) => .ok (some bName, crit, lk.set b.name b)

/-- One child of the `EntryList`: a parameter reference, a container reference (parsed through `rec` when new),
    or anything else (ignored). -/
def loadEntryWith (ens : Option String) (root : XmlNode) (params : List (String × LParam)) (rec : ContRec)
    (acc : List LEntry × CLookup) (entry : XmlNode) : LoadM (List LEntry × CLookup) :=
  if entry.tag == "ParameterRefEntry" then
    match entry.attr! "parameterRef" with
    | .error e => .error e
    | .ok pn =>
      if !(params.any (·.1 == pn)) then .error .other              -- KeyError
      else .ok (acc.1 ++ [LEntry.param pn], acc.2)
  else if entry.tag == "ContainerRefEntry" then
    match entry.attr! "containerRef" with
    | .error e => .error e
    | .ok cn =>
      if acc.2.any (·.1 == cn) then .ok (acc.1 ++ [LEntry.cont cn], acc.2)
      else match getContainerElement ens root cn with
        | .error e => .error e
        | .ok nEl => match rec acc.2 nEl with
          | .error e => .error e
          | .ok (nc, lk2) => .ok (acc.1 ++ [LEntry.cont nc.name], lk2.set nc.name nc)
  else .ok acc

/-- `SequenceContainer.from_xml` (recursive: base containers and nested containers not yet in the lookup are
    parsed first and stored). `fuel` bounds the recursion; cycles exhaust it (`RecursionError` in Python). -/
def loadContainer (ens : Option String) (root : XmlNode) (params : List (String × LParam)) :
    Nat → CLookup → XmlNode → LoadM (LContainer × CLookup)
  | 0, _, _ => .error .other                         -- RecursionError: a rejection at load time
  | fuel + 1, lookup, x =>
    match loadBaseWith ens root (loadContainer ens root params fuel) lookup x with
    | .error e => .error e
    | .ok (baseName, criteria, lookup) =>
      match findFirst ens [step "EntryList"] x with
      | none => .error .other
      | some el =>
        match el.elems.foldlM (loadEntryWith ens root params (loadContainer ens root params fuel)) ([], lookup) with
        | .error e => .error e
        | .ok (entries, lookup) =>
          match x.attr! "name" with
          | .error e => .error e
          | .ok name =>
            .ok ({ name := name, entries := entries, shortDesc := x.attr? "shortDescription",
                   longDesc := (findFirst ens [step "LongDescription"] x).bind (·.text),
                   base := baseName, criteria := criteria, abstract := boolAttr x "abstract" false }, lookup)

end Spp

namespace Spp

/-! ### structural equality of criteria (what `AttrComparable.__eq__` decides for freshly parsed objects) -/

def condBEq (a b : Condition) : Bool := a == b

def listBEq {α} (f : α → α → Bool) : List α → List α → Bool
  | [], [] => true
  | a :: as, b :: bs => f a b && listBEq f as bs
  | _, _ => false

mutual
def andedBEq : Anded → Anded → Bool
  | .mk c1 o1, .mk c2 o2 => listBEq condBEq c1 c2 && oredsBEq o1 o2
def oredsBEq : List Ored → List Ored → Bool
  | [], [] => true
  | a :: as, b :: bs => oredBEq a b && oredsBEq as bs
  | _, _ => false
def oredBEq : Ored → Ored → Bool
  | .mk c1 a1, .mk c2 a2 => listBEq condBEq c1 c2 && andedsBEq a1 a2
def andedsBEq : List Anded → List Anded → Bool
  | [], [] => true
  | a :: as, b :: bs => andedBEq a b && andedsBEq as bs
  | _, _ => false
end

def boolExprBEq : BoolExpr → BoolExpr → Bool
  | .cond a, .cond b => condBEq a b
  | .anded a, .anded b => andedBEq a b
  | .ored a, .ored b => oredBEq a b
  | _, _ => false

def criterionBEq : Criterion → Criterion → Bool
  | .comparison a, .comparison b => a == b
  | .boolExpr a, .boolExpr b => boolExprBEq a b
  | _, _ => false

def LContainer.beq (a b : LContainer) : Bool :=
  a.name == b.name && a.entries == b.entries && a.shortDesc == b.shortDesc && a.longDesc == b.longDesc &&
  a.base == b.base && listBEq criterionBEq a.criteria b.criteria && a.abstract == b.abstract &&
  a.inheritors == b.inheritors

/-! ### the three sets and the definition object -/

def typeSetStep (ens : Option String) (acc : List (String × LPType)) (el : XmlNode) : LoadM (List (String × LPType)) :=
  match loadParameterType ens el with
  | .error e => .error e
  | .ok t => if acc.any (·.1 == t.name) then .error .value       -- duplicate parameter type name
             else .ok (acc ++ [(t.name, t)])

def paramSetStep (ens : Option String) (types : List (String × LPType)) (acc : List (String × LParam)) (el : XmlNode) :
    LoadM (List (String × LParam)) :=
  match loadParameter ens types el with
  | .error e => .error e
  | .ok p => if acc.any (·.1 == p.name) then .error .value       -- duplicate parameter name
             else .ok (acc ++ [(p.name, p)])

/-- `_parse_parameter_type_set` -/
def loadParameterTypeSet (ens : Option String) (root : XmlNode) : LoadM (List (String × LPType)) :=
  match findFirst ens [step "TelemetryMetaData", step "ParameterTypeSet"] root with
  | none => .error .other
  | some set => set.elems.foldlM (typeSetStep ens) []

/-- `_parse_parameter_set` -/
def loadParameterSet (ens : Option String) (root : XmlNode) (types : List (String × LPType)) :
    LoadM (List (String × LParam)) :=
  match findFirst ens [step "TelemetryMetaData", step "ParameterSet"] root with
  | none => .error .other
  | some set => set.elems.foldlM (paramSetStep ens types) []

/-- Back-populate `inheritors`: for each container with a base, append its name to the base's list. -/
def populateInheritors (lookup : CLookup) : LoadM CLookup :=
  lookup.foldlM (fun lk kv =>
    match kv.2.base with
    | some b =>
      if b == "" then pure lk                                     -- `if sc.base_container_name:` (truthiness)
      else match lk.get? b with
        | some bc => pure (lk.set b { bc with inheritors := bc.inheritors ++ [kv.1] })
        | none => throw Err.other
    | none => pure lk) lookup

/-- One `SequenceContainer` child of the `ContainerSet`: parse it (it may already be in the lookup as somebody's base
    or nested container: an equal one is kept, a different one is a `ValueError`). -/
def containerSetStep (ens : Option String) (root : XmlNode) (params : List (String × LParam)) (lk : CLookup)
    (el : XmlNode) : LoadM CLookup :=
  match loadContainer ens root params FUEL lk el with
  | .error e => .error e
  | .ok (c, lk2) =>
    match lk2.get? c.name with
    | none => .ok (lk2.set c.name c)
    | some old => if old.beq c then .ok lk2 else .error .value

/-- `_parse_container_set` -/
def loadContainerSet (ens : Option String) (root : XmlNode) (params : List (String × LParam)) : LoadM CLookup :=
  match findFirst ens [step "TelemetryMetaData", step "ContainerSet"] root with
  | none => .error .other
  | some set =>
    match set.elems.foldlM (containerSetStep ens root params) [] with
    | .error e => .error e
    | .ok lookup => populateInheritors lookup

structure LDef where
  ptypes : List (String × LPType)
  params : List (String × LParam)
  containers : CLookup
  root : String
  date : Option String
  spaceSystemName : Option String
  nsPrefix : Option String
  nsmap : List (Option String × String)

def assocSet {β} (l : List (String × β)) (k : String) (v : β) : List (String × β) :=
  if l.any (·.1 == k) then l.map (fun kv => if kv.1 == k then (k, v) else kv) else l ++ [(k, v)]

abbrev Caches := List (String × LPType) × List (String × LParam) × CLookup

/-- One entry of a container during `_update_caches`: a nested container is descended into (through `rec`), a
    parameter is registered together with its parameter type. -/
def cacheEntry (allTypes : List (String × LPType)) (allParams : List (String × LParam)) (lookup : CLookup)
    (rec : Caches → LContainer → LoadM Caches) (acc : Caches) : LEntry → LoadM Caches
  | .cont n => match lookup.get? n with
    | some nc => rec acc nc
    | none => .error .other
  | .param n => match allParams.find? (·.1 == n) with
    | some (_, p) => match allTypes.find? (·.1 == p.typeName) with
      | some (_, t) => .ok (assocSet acc.1 t.name t, assocSet acc.2.1 p.name p, acc.2.2)
      | none => .error .other
    | none => .error .other

/-- `_update_caches(sc)` of `XtcePacketDefinition.__init__`: containers, parameters and parameter types reachable
    from the container set, in encounter order. -/
def updateCaches (allTypes : List (String × LPType)) (allParams : List (String × LParam)) (lookup : CLookup) :
    Nat → Caches → LContainer → LoadM Caches
  | 0, _, _ => .error .other
  | fuel + 1, acc, c =>
    c.entries.foldlM (cacheEntry allTypes allParams lookup (updateCaches allTypes allParams lookup fuel))
      (acc.1, acc.2.1, assocSet acc.2.2 c.name c)

/-- Everything `from_xtce` reads from the document itself, given the namespace its path steps must match:
    (header date, space-system name, parameter types, parameters, containers). -/
def loadDoc (ens : Option String) (root : XmlNode) :
    LoadM (Option String × Option String × List (String × LPType) × List (String × LParam) × CLookup) :=
  match loadParameterTypeSet ens root with
  | .error e => .error e
  | .ok types =>
    match loadParameterSet ens root types with
    | .error e => .error e
    | .ok params =>
      match loadContainerSet ens root params with
      | .error e => .error e
      | .ok lookup =>
        .ok ((findFirst ens [step "Header"] root).bind (·.attr? "date"), root.attr? "name", types, params, lookup)

/-- `XtcePacketDefinition.from_xtce(document, xtce_ns_prefix=…, root_container_name=…)` -/
def loadXtce (ctx : NsCtx) (rootName : String) (root : XmlNode) : LoadM LDef := do
  let ens ← ctx.expected
  let (date, ssn, types, params, lookup) ← loadDoc ens root
  -- `cls(container_set=list(lookup.values()), ns=…, xtce_ns_prefix=…)`
  if ctx.nsPrefix.isSome && !(ctx.nsmap.any (·.1 == ctx.nsPrefix)) then throw .value
  let (ts, ps, cs) ← lookup.foldlM (fun acc kv => updateCaches types params lookup FUEL acc kv.2) ([], [], [])
  pure { ptypes := ts, params := ps, containers := cs, root := rootName, date := date,
         spaceSystemName := ssn, nsPrefix := ctx.nsPrefix, nsmap := ctx.nsmap }

/-! ### from the loaded object graph to the decoding model -/

def LPType.toPType (t : LPType) : PType :=
  { name := t.name,
    kind := if t.tag == "EnumeratedParameterType" then .enum t.enumeration
            else if t.tag == "BooleanParameterType" then .bool else .plain,
    enc := t.enc }

def resolveContainer (d : LDef) : Nat → LContainer → Option Container
  | 0, _ => none
  | fuel + 1, c => do
    let es ← c.entries.mapM (fun e => match e with
      | .param n => do
        let p ← (d.params.find? (·.1 == n)).map (·.2)
        let t ← (d.ptypes.find? (·.1 == p.typeName)).map (·.2)
        pure (Entry.param n t.toPType)
      | .cont n => do
        let nc ← d.containers.get? n
        let rc ← resolveContainer d fuel nc
        pure (Entry.cont rc))
    pure (Container.mk c.name es c.base c.criteria c.abstract c.inheritors)

def LDef.toDefinition (d : LDef) : Option Definition := do
  let cs ← d.containers.mapM (fun kv => do pure (kv.1, ← resolveContainer d FUEL kv.2))
  pure { containers := cs, root := d.root }

end Spp
