/-
Python values as the model sees them: exact floats, parameter value classes, the packet dictionary,
and the literal coercions `int("…")` / `float("…")` used by match criteria.
-/
import Spp.Model.Bits
namespace Spp

/-- A Python float: an exactly representable rational, or one of the specials. -/
inductive FVal
  | fin (q : Rat)
  | negZero
  | inf (neg : Bool)
  | nan
deriving DecidableEq, Repr, Inhabited

/-- Plain Python values that occur as parameter values and raw values. -/
inductive PyVal
  | int (i : Int)
  | flt (f : FVal)
  | str (s : String)
  | bytes (b : Bytes)
deriving DecidableEq, Repr, Inhabited

/-- The five value classes of `space_packet_parser.common`. -/
inductive Cls | IntP | FloatP | StrP | BinP | BoolP
deriving DecidableEq, Repr, Inhabited

/-- A parsed parameter value: built-in value plus `raw_value`. -/
structure Param where
  cls : Cls
  val : PyVal
  raw : PyVal
deriving DecidableEq, Repr, Inhabited

/-- `_Parameter.__new__(cls, value, raw_value=None)`: `raw_value if raw_value is not None else value`. -/
def mkParam (cls : Cls) (val : PyVal) (raw : Option PyVal := none) : Param :=
  { cls := cls, val := val, raw := match raw with | some r => r | none => val }

/-- The packet dictionary: insertion ordered; re-assigning a key keeps its position. -/
abbrev Items := List (String × Param)

def Items.get? (it : Items) (k : String) : Option Param := (it.find? (·.1 == k)).map (·.2)

def Items.set : Items → String → Param → Items
  | [], k, v => [(k, v)]
  | (k', v') :: rest, k, v => if k' == k then (k', v) :: rest else (k', v') :: Items.set rest k v

/-- Error classes the properties distinguish. Everything else is `other`. -/
inductive Err
  | value          -- ValueError (incl. UnicodeDecodeError)
  | calibration    -- CalibrationError
  | unrecognized   -- UnrecognizedPacketTypeError
  | other          -- KeyError, TypeError, ComparisonError, ZeroDivisionError, NotImplementedError, ...
  | unsupported    -- outside what the model covers (counted and skipped by the harness)
deriving DecidableEq, Repr, Inhabited

def bitErr (_ : BitErr) : Err := .value

/-! ### numeric helpers -/

def FVal.ofInt (i : Int) : FVal := .fin (i : Rat)

/-- `2^k` for integer `k` as a rational. -/
def pow2 (k : Int) : Rat := (2 : Rat) ^ k

/-- Is this rational exactly a binary64 value (normal or subnormal)?  Used to keep the model inside the
    exact-arithmetic regime; anything else is answered `unsupported`. -/
def isDouble (q : Rat) : Bool :=
  if q == 0 then true
  else
    let n := q.num.natAbs
    let d := q.den
    -- d must be a power of two and the odd part of n must fit in 53 bits
    let dl := d.log2
    if d != 2 ^ dl then false
    else
      let tz := (List.range 1100).find? (fun k => n % 2 ^ (k + 1) != 0) |>.getD 0
      let odd := n / 2 ^ tz
      let e : Int := (tz : Int) - dl            -- q = ± odd * 2^e
      let bl := odd.log2 + 1                     -- bit length of odd
      bl ≤ 53 && e ≥ -1074 && e + bl ≤ 1024 && (e ≥ -1074)

/-! ### literals -/

def isAsciiWs (c : Char) : Bool := c == ' ' || c == '\t' || c == '\n' || c == '\r' || c == '\x0b' || c == '\x0c'

def stripWs (cs : List Char) : List Char :=
  (cs.dropWhile isAsciiWs).reverse.dropWhile isAsciiWs |>.reverse

/-- digits with single underscores between digits → value -/
def digitsVal : List Char → Option Nat
  | [] => none
  | cs =>
    let rec go : List Char → Nat → Bool → Option Nat
      | [], acc, prevDigit => if prevDigit then some acc else none
      | c :: rest, acc, prevDigit =>
        if c.isDigit then go rest (acc * 10 + (c.toNat - '0'.toNat)) true
        else if c == '_' && prevDigit && !rest.isEmpty then go rest acc false
        else none
    match cs with
    | c :: _ => if c.isDigit then go cs 0 false else none
    | [] => none

inductive Lit (α : Type)
  | ok (v : α)
  | invalid          -- Python raises ValueError
  | unsupported      -- exotic spelling the model does not cover
deriving Repr

def allAscii (cs : List Char) : Bool := cs.all (fun c => c.toNat < 128)

/-- An optional sign in front of a numeric literal. -/
def signSplit : List Char → Bool × List Char
  | '-' :: r => (true, r)
  | '+' :: r => (false, r)
  | r => (false, r)

/-- `int("…")` -/
def parseIntLit (s : String) : Lit Int :=
  let cs := stripWs s.toList
  if !allAscii s.toList then .unsupported
  else
    let (neg, body) := signSplit cs
    match digitsVal body with
    | some n => .ok (if neg then -(n : Int) else n)
    | none => .invalid

/-- Split a char list at the first char satisfying `p`. -/
def splitAt1 (p : Char → Bool) (cs : List Char) : List Char × Option (List Char) :=
  match cs.span (fun c => !p c) with
  | (a, []) => (a, none)
  | (a, _ :: b) => (a, some b)

def lower (cs : List Char) : List Char := cs.map Char.toLower

/-- `float("…")` for decimal literals; the value must be exactly representable, otherwise `unsupported`. -/
def parseFloatLit (s : String) : Lit FVal :=
  let cs := stripWs s.toList
  if !allAscii s.toList then .unsupported
  else
    let (neg, body) := signSplit cs
    let lb := String.ofList (lower body)
    if lb == "inf" || lb == "infinity" then .ok (.inf neg)
    else if lb == "nan" then .ok .nan
    else
      let (mant, exp?) := splitAt1 (fun c => c == 'e' || c == 'E') body
      let (ip, fp?) := splitAt1 (· == '.') mant
      let ipv := if ip.isEmpty then some 0 else digitsVal ip
      let (fpv, fpl) := match fp? with
        | none => (some 0, 0)
        | some [] => (some 0, 0)
        | some f => (digitsVal f, (f.filter Char.isDigit).length)
      let okShape := !(ip.isEmpty && (fp? == none || fp? == some []))
      let expv : Option Int := match exp? with
        | none => some 0
        | some e =>
          let (eneg, eb) := match e with
            | '-' :: r => (true, r)
            | '+' :: r => (false, r)
            | r => (false, r)
          (digitsVal eb).map (fun n => if eneg then -(n : Int) else n)
      match okShape, ipv, fpv, expv with
      | true, some i, some f, some e =>
        if e > 400 || e < -400 then .unsupported
        else
          let q : Rat := ((i : Rat) + (f : Rat) / ((10 : Rat) ^ fpl)) * (10 : Rat) ^ e
          let q := if neg then -q else q
          if q == 0 then .ok (if neg then .negZero else .fin 0)
          else if isDouble q then .ok (.fin q) else .unsupported
      | _, _, _, _ => .invalid

end Spp
