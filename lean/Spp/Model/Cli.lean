/-
Executable mirror of the row selection of `spp describe-packets` and the index test of `spp parse --packet`
(`space_packet_parser/cli.py`, after the `fix:` commit for the duplicated rows / index bound — DESIGN.md §8-16).
-/
namespace Spp

def MAX_ROWS : Nat := 10
def HEAD_ROWS : Nat := 5

/-- Python `l[-k:]` for `k > 0`. -/
def lastK {α} (l : List α) (k : Nat) : List α := l.drop (l.length - k)

/-- Rows of the listing: `some p` = the header fields of packet `p`, `none` = the ellipsis row. -/
def describeRows {α} (packets : List α) : List (Option α) :=
  let (head, tail) := if packets.length > MAX_ROWS then (packets.take HEAD_ROWS, lastK packets HEAD_ROWS) else (packets, [])
  head.map some ++ (if packets.length > MAX_ROWS then [none] else []) ++ tail.map some

/-- `spp parse --packet i`: the packet shown, or `none` for the out-of-range message. -/
def selectPacket {α} (packets : List α) (i : Int) : Option α :=
  if i < 0 ∨ i ≥ packets.length then none else packets[i.toNat]?

end Spp
