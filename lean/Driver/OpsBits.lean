import Driver.SExp
namespace Driver
open Spp

def showBitErr : BitErr → String
  | .negativeShift => "err value"
  | .endOfPacket => "err value"
  | .negativeWidth => "err value"

/-- C03 ops. -/
def opsBits (op : String) (args : List SExp) : Option String :=
  match op, args with
  | "xbits", [d, p, n] => do
      let d ← d.hex?; let p ← p.nat?; let n ← n.nat?
      match extractBits d p n with
      | .ok v => pure s!"ok {v}"
      | .error e => pure (showBitErr e)
  | "rint", [d, p, n] => do
      let d ← d.hex?; let p ← p.nat?; let n ← n.int?
      match readAsInt ⟨d, p⟩ n with
      | .ok (v, r) => pure s!"ok {v} {r.pos} {if r.data == d then "same" else "changed"}"
      | .error e => pure (showBitErr e)
  | "rbytes", [d, p, n] => do
      let d ← d.hex?; let p ← p.nat?; let n ← n.int?
      match readAsBytes ⟨d, p⟩ n with
      | .ok (v, r) => pure s!"ok {showHex v} {r.pos} {if r.data == d then "same" else "changed"}"
      | .error e => pure (showBitErr e)
  | "rseq", [d, p, .list ops] => do
      -- a history of reads on one buffer object: `(i n)` = read_as_int(n), `(b n)` = read_as_bytes(n)
      let d ← d.hex?; let p ← p.nat?
      let rec go (r : Raw) (ops : List SExp) (acc : String) : Option String :=
        match ops with
        | [] => some (acc ++ s!" end {r.pos} {if r.data == d then "same" else "changed"}")
        | .list [.atom k, n] :: rest => do
          let n ← n.int?
          if k == "p" then
            -- the caller moves the cursor (forwards or backwards) between reads: `raw_data.pos = n`
            go ⟨r.data, n.toNat⟩ rest acc
          else if k == "i" then
            match readAsInt r n with
            | .ok (v, r') => go r' rest (acc ++ s!" {v}")
            | .error _ => some (acc ++ " err")
          else
            match readAsBytes r n with
            | .ok (v, r') => go r' rest (acc ++ s!" {showHex v}")
            | .error _ => some (acc ++ " err")
        | _ => none
      go ⟨d, p⟩ ops "seq"
  | _, _ => none

end Driver
