import Driver.SExp
namespace Driver
open Spp

def showBitErr : BitErr → String
  | .negativeShift => "err value"
  | .endOfPacket => "err value"
  | .negativeWidth => "err value"

/-- C03 ops. -/
def opsBits (op : String) (args : List SExp) : Option String :=
  match op, args with
  | "xbits", [d, p, n] => do
      let d ← d.hex?; let p ← p.nat?; let n ← n.nat?
      match extractBits d p n with
      | .ok v => pure s!"ok {v}"
      | .error e => pure (showBitErr e)
  | "rint", [d, p, n] => do
      let d ← d.hex?; let p ← p.nat?; let n ← n.int?
      match readAsInt ⟨d, p⟩ n with
      | .ok (v, r) => pure s!"ok {v} {r.pos} {if r.data == d then "same" else "changed"}"
      | .error e => pure (showBitErr e)
  | "rbytes", [d, p, n] => do
      let d ← d.hex?; let p ← p.nat?; let n ← n.int?
      match readAsBytes ⟨d, p⟩ n with
      | .ok (v, r) => pure s!"ok {showHex v} {r.pos} {if r.data == d then "same" else "changed"}"
      | .error e => pure (showBitErr e)
  | _, _ => none

end Driver
