/-
Line protocol support: S-expressions, hex, integers.  One request per line, one response per line.
-/
import Spp.Model.Bits
namespace Driver
open Spp

inductive SExp
  | atom (s : String)
  | list (xs : List SExp)
deriving Inhabited, Repr

partial def SExp.toString : SExp → String
  | .atom s => s
  | .list xs => "(" ++ " ".intercalate (xs.map SExp.toString) ++ ")"

/-- Tokenise: parentheses are their own tokens, everything else is split on blanks. -/
def tokenizeSlow (s : String) : List String := Id.run do
  let mut toks : Array String := #[]
  let mut cur : String := ""
  for c in s.toList do
    if c == '(' || c == ')' then
      if cur != "" then toks := toks.push cur; cur := ""
      toks := toks.push (String.singleton c)
    else if c == ' ' || c == '\t' || c == '\n' || c == '\r' then
      if cur != "" then toks := toks.push cur; cur := ""
    else cur := cur.push c
  if cur != "" then toks := toks.push cur
  return toks.toList

def tokenize (s : String) : List String :=
  if s.contains '(' || s.contains ')' || s.contains '\t' then tokenizeSlow s
  else ((s.trimAscii.toString.splitOn " ").filter (· != ""))

/-- Parse a token list into a sequence of S-expressions (stack based, total). -/
def parseSeq (toks : List String) : Option (List SExp) := Id.run do
  let mut stack : List (List SExp) := [[]]
  for t in toks do
    if t == "(" then stack := [] :: stack
    else if t == ")" then
      match stack with
      | top :: next :: rest => stack := (SExp.list top.reverse :: next) :: rest
      | _ => return none
    else
      match stack with
      | top :: rest => stack := (SExp.atom t :: top) :: rest
      | [] => return none
  match stack with
  | [top] => return some top.reverse
  | _ => return none

def parseLine (s : String) : Option (List SExp) := parseSeq (tokenize s)

def hexDigit (c : Char) : Option Nat :=
  if '0' ≤ c ∧ c ≤ '9' then some (c.toNat - '0'.toNat)
  else if 'a' ≤ c ∧ c ≤ 'f' then some (c.toNat - 'a'.toNat + 10)
  else if 'A' ≤ c ∧ c ≤ 'F' then some (c.toNat - 'A'.toNat + 10)
  else none

def hexVal (c : UInt8) : Option UInt8 :=
  if 48 ≤ c ∧ c ≤ 57 then some (c - 48)
  else if 97 ≤ c ∧ c ≤ 102 then some (c - 87)
  else if 65 ≤ c ∧ c ≤ 70 then some (c - 55)
  else none

/-- `x<hex>` → bytes -/
def parseHex (s : String) : Option Bytes := Id.run do
  let ba := s.toUTF8
  if ba.size == 0 || ba[0]! != 120 || ba.size % 2 != 1 then return none
  let mut acc : Array UInt8 := Array.mkEmpty (ba.size / 2)
  let mut i := 1
  while i + 1 < ba.size do
    match hexVal ba[i]!, hexVal ba[i+1]! with
    | some x, some y => acc := acc.push (x * 16 + y)
    | _, _ => return none
    i := i + 2
  return some acc.toList

def hexChar (n : Nat) : Char := if n < 10 then Char.ofNat (48 + n) else Char.ofNat (87 + n)

def hexByte (n : UInt8) : UInt8 := if n < 10 then 48 + n else 87 + n

def showHex (bs : Bytes) : String := Id.run do
  let mut ba : ByteArray := ByteArray.emptyWithCapacity (2 * bs.length + 1)
  ba := ba.push 120
  for b in bs do
    ba := (ba.push (hexByte (b / 16))).push (hexByte (b % 16))
  return String.fromUTF8! ba

def parseInt (s : String) : Option Int := s.toInt?
def parseNat (s : String) : Option Nat := s.toNat?

def SExp.atom? : SExp → Option String
  | .atom s => some s
  | _ => none

def SExp.int? (e : SExp) : Option Int := e.atom? >>= parseInt
def SExp.nat? (e : SExp) : Option Nat := e.atom? >>= parseNat
def SExp.hex? (e : SExp) : Option Bytes := e.atom? >>= parseHex

end Driver
