import Driver.OpsXtce
import Spp.Model.Copy
namespace Driver
open Spp

def opsCopy (op : String) (args : List SExp) : Option String :=
  match op, args with
  | "mkparam", [c, v, r] => do
      let c ← c.atom? >>= parseCls; let v ← v.val?; let r ← r.optVal?
      let p := mkParam c v r
      pure s!"ok {showCls p.cls} {showVal p.val} {showVal p.raw}"
  | "copyparam", [c, v, r, _how] => do
      let c ← c.atom? >>= parseCls; let v ← v.val?; let r ← r.optVal?
      let p := (mkParam c v r).reduce.reconstruct
      pure s!"ok {showCls p.cls} {showVal p.val} {showVal p.raw}"
  | "copypkt", [items, data, pos, _how] => do
      let items ← parseItems items; let data ← data.hex?; let pos ← pos.nat?
      let p : Pkt := { raw := ⟨data, pos⟩, items := items }
      pure ("ok " ++ showPkt p.reduce.reconstruct)
  | "like", _ => some "same"     -- object-model behaviour: true of the value model by construction (harness-only check)
  | _, _ => none

end Driver
