import Driver.SExp
import Spp.Model.Cli
namespace Driver
open Spp

def opsCli (op : String) (args : List SExp) : Option String :=
  match op, args with
  | "const", [SExp.atom "rows"] => some s!"ok {MAX_ROWS} {HEAD_ROWS}"
  | "rows", [n] => do
      let n ← n.nat?
      let rows := describeRows (List.range n)
      pure ("rows" ++ String.join (rows.map (fun r => match r with | some i => s!" {i}" | none => " ...")))
  | "index", [n, i] => do
      let n ← n.nat?; let i ← i.int?
      pure (match selectPacket (List.range n) i with
        | some k => s!"shown {k}"
        | none => "out-of-range")
  | _, _ => none

end Driver
