import Driver.SExp
import Spp.Model.Cli
namespace Driver
open Spp

def opsCli (op : String) (args : List SExp) : Option String :=
  match op, args with
  | "const", [SExp.atom "rows"] => some s!"ok {MAX_ROWS} {HEAD_ROWS}"
  | "rows", [n] => do
      let n ← n.nat?
      let rows := describeRows (List.range n)
      pure ("rows" ++ String.join (rows.map (fun r => match r with | some i => s!" {i}" | none => " ...")))
  | "rowsdup", [n] => do
      -- a file of n byte-identical packets: n packets all the same are still n packets (answered by position)
      let n ← n.nat?
      let rows := describeRows (List.range n)
      pure ("rows" ++ String.join (rows.map (fun r => match r with | some i => s!" {i}" | none => " ...")))
  | "index", [n, i] => do
      let n ← n.nat?; let i ← i.int?
      pure (match selectPacket (List.range n) i with
        | some k => s!"shown {k}"
        | none => "out-of-range")
  | "rowscut", [n, c] => do
      -- the file of n seven-byte packets with its last c bytes missing: only the complete packets are listed
      let n ← n.nat?; let c ← c.nat?
      let rows := describeRows (List.range ((7 * n - c) / 7))
      pure ("rows" ++ String.join (rows.map (fun r => match r with | some i => s!" {i}" | none => " ...")))
  | "indexcut", [n, c, i] => do
      let n ← n.nat?; let c ← c.nat?; let i ← i.int?
      pure (match selectPacket (List.range ((7 * n - c) / 7)) i with
        | some k => s!"shown {k}"
        | none => "out-of-range")
  | "parseshort", [_n] =>
      -- `spp parse` on a well-framed file whose packets are shorter than the definition describes: whatever is printed,
      -- the command ends without a traceback
      some "no-traceback"
  | "parsebad", [_kind] =>
      -- `spp parse` on a file holding a packet the definition cannot decode (an unlisted enumeration value), or with a
      -- definition whose root container has another name than CCSDSPacket: no traceback
      some "no-traceback"
  | _, _ => none

end Driver
