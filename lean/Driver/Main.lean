import Driver.OpsBits
import Driver.OpsPackets
import Driver.OpsXtce
import Driver.OpsCli
import Driver.OpsCopy
import Driver.OpsXarr
import Driver.OpsXml
namespace Driver

def handlers : List (String → List SExp → Option String) := [opsBits, opsPackets, opsXtce, opsCli, opsCopy, opsXarr, opsXml]

def respond (line : String) : String :=
  match parseLine line with
  | some (SExp.atom op :: args) =>
    if op == "ping" then "pong"
    else
      match handlers.findSome? (fun h => h op args) with
      | some r => r
      | none => "bad-op"
  | _ => "bad-op"

partial def loop (hin hout : IO.FS.Stream) : IO Unit := do
  let line ← hin.getLine
  if line.isEmpty then return ()
  hout.putStrLn (respond line)
  loop hin hout

end Driver

def main : IO Unit := do
  let hin ← IO.getStdin
  let hout ← IO.getStdout
  Driver.loop hin hout
  hout.flush
