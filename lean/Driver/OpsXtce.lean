import Driver.SExp
import Spp.Model.Definition
namespace Driver
open Spp

/-! Parsing of the structured requests (definitions, criteria, encodings, values). -/

def parseStr (a : String) : Option String :=
  match a.toList with
  | 's' :: rest => (parseHex (String.ofList ('x' :: rest))) >>= fun bs => String.fromUTF8? (ByteArray.mk bs.toArray)
  | _ => none

def SExp.str? (e : SExp) : Option String := e.atom? >>= parseStr
def SExp.isAtom (e : SExp) (a : String) : Bool :=
  match e with
  | .atom s => s == a
  | _ => false
def SExp.optStr? (e : SExp) : Option (Option String) :=
  if e.isAtom "-" then some none else e.str?.map some
def SExp.optInt? (e : SExp) : Option (Option Int) :=
  if e.isAtom "-" then some none else e.int?.map some
def SExp.bool? (e : SExp) : Option Bool :=
  match e with
  | .atom "1" => some true
  | .atom "0" => some false
  | _ => none
def SExp.list? : SExp → Option (List SExp)
  | .list xs => some xs
  | _ => none

def parseRatTok (s : String) : Option Rat :=
  match s.splitOn "/" with
  | [n, d] => do let n ← n.toInt?; let d ← d.toNat?; if d == 0 then none else some (mkRat n d)
  | [n] => (n.toInt?).map (fun i => (i : Rat))
  | _ => none

/-- `i<int>` | `f<num>/<den>` | `f-0` | `finf` | `f-inf` | `fnan` | `s<hex>` | `x<hex>` -/
def parseVal (a : String) : Option PyVal :=
  match a.toList with
  | 'i' :: rest => (String.ofList rest).toInt?.map PyVal.int
  | 'f' :: rest =>
    let r := String.ofList rest
    if r == "-0" then some (.flt .negZero)
    else if r == "inf" then some (.flt (.inf false))
    else if r == "-inf" then some (.flt (.inf true))
    else if r == "nan" then some (.flt .nan)
    else (parseRatTok r).map (fun q => PyVal.flt (.fin q))
  | 's' :: _ => (parseStr a).map PyVal.str
  | 'x' :: _ => (parseHex a).map PyVal.bytes
  | _ => none

def SExp.val? (e : SExp) : Option PyVal := e.atom? >>= parseVal
def SExp.optVal? (e : SExp) : Option (Option PyVal) :=
  if e.isAtom "-" then some none else e.val?.map some

/-- A number that must be finite (calibrator coefficients, spline points). `none` inside = not finite. -/
def valRat : PyVal → Option Rat
  | .int i => some i
  | .flt (.fin q) => some q
  | .flt .negZero => some 0
  | _ => none

def showRat (q : Rat) : String := s!"{q.num}/{q.den}"

def showVal : PyVal → String
  | .int i => s!"i{i}"
  | .flt (.fin q) => "f" ++ showRat q
  | .flt .negZero => "f-0"
  | .flt (.inf false) => "finf"
  | .flt (.inf true) => "f-inf"
  | .flt .nan => "fnan"
  | .str s => "s" ++ (showHex s.toUTF8.toList).drop 1
  | .bytes b => showHex b

def showCls : Cls → String
  | .IntP => "IntP" | .FloatP => "FloatP" | .StrP => "StrP" | .BinP => "BinP" | .BoolP => "BoolP"

def parseCls : String → Option Cls
  | "IntP" => some .IntP | "FloatP" => some .FloatP | "StrP" => some .StrP | "BinP" => some .BinP
  | "BoolP" => some .BoolP | _ => none

def showErr : Err → String
  | .value => "err value" | .calibration => "err calibration" | .unrecognized => "err unrecognized"
  | .other => "err other" | .unsupported => "unsupported"

def showItem (kv : String × Param) : String :=
  "s" ++ (showHex kv.1.toUTF8.toList).drop 1 ++ "|" ++ showCls kv.2.cls ++ "|" ++ showVal kv.2.val ++ "|" ++ showVal kv.2.raw

def showItems (it : Items) : String := " ".intercalate (it.map showItem)

/-- `(name cls val raw)` -/
def parseItem (e : SExp) : Option (String × Param) :=
  match e with
  | .list [n, c, v, r] => do
    let n ← n.str?; let c ← c.atom? >>= parseCls; let v ← v.val?; let r ← r.val?
    pure (n, { cls := c, val := v, raw := r })
  | _ => none

def parseItems (e : SExp) : Option Items := e.list? >>= fun xs => xs.mapM parseItem

def parseComparison (e : SExp) : Option Comparison :=
  match e with
  | .list [.atom "cmp", r, o, l, u] => do
    pure { ref := ← r.str?, op := ← o.str?, requiredValue := ← l.str?, useCal := ← u.bool? }
  | _ => none

def parseCondition (e : SExp) : Option Condition :=
  match e with
  | .list [.atom "cond", l, o, rp, rv, lc, rc] => do
    pure { left := ← l.str?, op := ← o.str?, rightParam := ← rp.optStr?, rightValue := ← rv.optStr?,
           leftCal := ← lc.bool?, rightCal := ← rc.bool? }
  | _ => none

mutual
partial def parseAnded (e : SExp) : Option Anded :=
  match e with
  | .list [.atom "and", .list cs, .list os] => do
    pure (Anded.mk (← cs.mapM parseCondition) (← os.mapM parseOred))
  | _ => none
partial def parseOred (e : SExp) : Option Ored :=
  match e with
  | .list [.atom "or", .list cs, .list as] => do
    pure (Ored.mk (← cs.mapM parseCondition) (← as.mapM parseAnded))
  | _ => none
end

def parseBoolExpr (e : SExp) : Option BoolExpr :=
  match e with
  | .list (.atom "cond" :: _) => (parseCondition e).map BoolExpr.cond
  | .list (.atom "and" :: _) => (parseAnded e).map BoolExpr.anded
  | .list (.atom "or" :: _) => (parseOred e).map BoolExpr.ored
  | _ => none

def parseCriterion (e : SExp) : Option Criterion :=
  match e with
  | .list (.atom "cmp" :: _) => (parseComparison e).map Criterion.comparison
  | .list [.atom "bexpr", b] => (parseBoolExpr b).map Criterion.boolExpr
  | _ => none

def parseDL (e : SExp) : Option DiscreteLookup :=
  match e with
  | .list [.atom "dl", .list cs, v] => do
    pure { criteria := ← cs.mapM parseComparison, value := ← v.val? }
  | _ => none

/-- Calibrator; the outer option is a syntax error, the inner one "not in the exact-arithmetic regime". -/
def parseCal (e : SExp) : Option (Option Calibrator) :=
  match e with
  | .list (.atom "poly" :: terms) => do
    let ts ← terms.mapM (fun t => match t with
      | .list [c, n] => do
        let c ← c.val?; let n ← n.int?
        let isI := match c with | PyVal.int _ => true | _ => false
        pure ((valRat c).map (fun q => ({ coef := q, exp := n, isInt := isI } : PolyTerm)))
      | _ => none)
    pure ((ts.mapM id).map Calibrator.poly)
  | .list (.atom "spline" :: o :: x :: pts) => do
    let o ← o.int?; let x ← x.bool?
    let ps ← pts.mapM (fun t => match t with
      | .list [a, b] => do
        let a ← a.val?; let b ← b.val?
        pure (do let a ← valRat a; let b ← valRat b; pure ({ raw := a, cal := b } : SplinePoint))
      | _ => none)
    pure ((ps.mapM id).map (fun ps => Calibrator.spline { points := sortPoints ps, order := o, extrapolate := x }))
  | _ => none

structure Unsup (α : Type) where
  val : Option α          -- `none` = request understood but outside the model's regime

def parseCals (e : SExp) : Option (Option Calibs) :=
  match e with
  | .list [d, .list ctxs] => do
    let d : Option (Option Calibrator) ←
      if d.isAtom "-" then some (some none) else (parseCal d).map (fun oc => oc.map some)
    let cs ← ctxs.mapM (fun c => match c with
      | .list [.atom "ctx", .list crits, cal] => do
        let crits ← crits.mapM parseCriterion
        let cal ← parseCal cal
        pure (cal.map (fun cal => ({ criteria := crits, calibrator := cal } : ContextCalibrator)))
      | _ => none)
    pure (do let d ← d; let cs ← cs.mapM id; pure { default := d, contexts := cs })
  | _ => none

def parseAdj (e : SExp) : Option (Option LinAdj) :=
  match e with
  | .atom _ => if e.isAtom "-" then some none else none
  | .list [s, i] => do pure (some { slope := ← s.int?, intercept := ← i.int? })
  | _ => none

def parseLookup (e : SExp) : Option (Option (List DiscreteLookup)) :=
  match e with
  | .atom _ => if e.isAtom "-" then some none else none
  | .list xs => (xs.mapM parseDL).map some

def parseEncoding (e : SExp) : Option (Option Encoding) :=
  match e with
  | .list [.atom k, sz, enc, bo, cals] =>
    if k == "int" || k == "float" then do
      let sz ← sz.int?; let enc ← enc.str?; let bo ← bo.str?; let cals ← parseCals cals
      let isF : Bool := k == "float"
      pure (cals.map (fun c =>
        let ne : NumEnc := { isFloat := isF, size := sz, encoding := if isF then normFloatEncoding enc else enc,
                             byteOrder := bo, cals := c }
        Encoding.num ne))
    else none
  | .list [.atom "str", enc, fixed, dyn, lk, uc, adj, term, lead, bo] => do
    let bo ← bo.optStr?
    let term : Option Bytes ← if term.isAtom "-" then some none else term.hex?.map some
    let enc ← enc.str?; let fixed ← fixed.optInt?; let dyn ← dyn.optStr?; let lk ← parseLookup lk
    let uc ← uc.bool?; let adj ← parseAdj adj; let lead ← lead.optInt?
    let se : StrEnc := { encoding := enc, fixedLength := fixed, dynRef := dyn, lookup := lk, useCal := uc,
                         adjuster := adj, termChar := term, leadingSize := lead, byteOrder := bo }
    pure (some (Encoding.str se))
  | .list [.atom "bin", fixed, ref, uc, lk, adj] => do
    let fixed ← fixed.optInt?; let ref ← ref.optStr?; let uc ← uc.bool?; let lk ← parseLookup lk
    let adj ← parseAdj adj
    let be : BinEnc := { fixedSize := fixed, sizeRef := ref, useCal := uc, lookup := lk, adjuster := adj }
    pure (some (Encoding.bin be))
  | _ => none

def parsePType (e : SExp) : Option (Option PType) :=
  match e with
  | .list [.atom "pt", n, k, enc] => do
    let n ← n.str?
    let k ← if k.isAtom "plain" then some PKind.plain
      else if k.isAtom "bool" then some PKind.bool
      else match k with
        | SExp.list (_ :: kvs) =>
          let kvs' : Option (List (PyVal × String)) := kvs.mapM (fun kv => match kv with
            | SExp.list [k, l] => do
              let k ← k.val?; let l ← l.str?
              pure (k, l)
            | _ => none)
          kvs'.map PKind.enum
        | _ => none
    let enc ← parseEncoding enc
    pure (enc.map (fun enc => { name := n, kind := k, enc := enc }))
  | _ => none

mutual
partial def parseEntry (e : SExp) : Option (Option Entry) :=
  match e with
  | .list [.atom "p", n, pt] => do
    let n ← n.str?; let pt ← parsePType pt
    pure (pt.map (Entry.param n))
  | .list (.atom "cont" :: _) => (parseContainer e).map (fun c => c.map Entry.cont)
  | _ => none
partial def parseContainer (e : SExp) : Option (Option Container) :=
  match e with
  | .list [.atom "cont", n, ab, base, .list crits, .list inh, .list ents] => do
    let n ← n.str?; let ab ← ab.bool?; let base ← base.optStr?
    let crits ← crits.mapM parseCriterion
    let inh ← inh.mapM SExp.str?
    let ents ← ents.mapM parseEntry
    pure ((ents.mapM id).map (fun es => Container.mk n es base crits ab inh))
  | _ => none
end

def parseDef (e : SExp) : Option (Option Definition) :=
  match e with
  | .list [.atom "def", root, .list cs] => do
    let root ← root.str?
    let cs ← cs.mapM parseContainer
    pure ((cs.mapM id).map (fun cs => { containers := cs.map (fun c => (c.name, c)), root := root }))
  | _ => none

def showPkt (p : Pkt) : String :=
  s!"{p.raw.pos} {showHex p.raw.data} {p.items.length}" ++ (if p.items.isEmpty then "" else " " ++ showItems p.items)

def showParse : ParseResult → String
  | .ok p => "ok " ++ showPkt p
  | .unrecognized p => "unrec " ++ showPkt p
  | .error e => showErr e

def showEvent : Event → String
  | .rawPacket b => "R " ++ showHex b
  | .packet p => "P " ++ showPkt p
  | .unrec p => "U " ++ showPkt p
  | .warnNoStart => "W:nostart"
  | .warnSequence => "W:seq"
  | .warnLength => "W:len"
  | .raised e => "E:" ++ (showErr e).replace " " "-"

/-- A run that left the model's regime anywhere is reported as a whole as `unsupported`. -/
def showEvents (hd : String) (evs : List Event) : String :=
  if evs.any (fun e => match e with | .raised .unsupported => true | _ => false) then "unsupported"
  else hd ++ String.join (evs.map (fun e => " " ++ showEvent e))

def hexList2? : SExp → Option (List Bytes)
  | .list xs => xs.mapM SExp.hex?
  | _ => none

def unsup {α} (o : Option α) (f : α → String) : String :=
  match o with | some a => f a | none => "unsupported"

def opsXtce (op : String) (args : List SExp) : Option String :=
  match op, args with
  | "cal", [c, x] => do
      let c ← parseCal c; let x ← x.val?
      pure (unsup c fun c =>
        match calInputFor c x with
        | .error e => showErr e
        | .ok q => match c.calibrate q with
          | .error e => showErr e
          | .ok y => match calOutput y with
            | .ok v => "ok " ++ showVal v
            | .error e => showErr e)
  | "crit", [c, items, cur] => do
      let c ← parseCriterion c; let items ← parseItems items; let cur ← cur.optVal?
      pure (match c.evaluate items cur with
        | .ok b => s!"ok {b}"
        | .error e => showErr e)
  | "critlist", [.list cs, items, cur] => do
      let cs ← cs.mapM parseCriterion; let items ← parseItems items; let cur ← cur.optVal?
      pure (match allCriteria items cur cs with
        | .ok b => s!"ok {b}"
        | .error e => showErr e)
  | "lookup", [.list dls, items] => do
      let dls ← dls.mapM parseDL; let items ← parseItems items
      -- value of the first entry whose criteria all hold (the `is not None` reading)
      pure (match lookupNotNone items dls with
        | .ok v => "ok " ++ showVal v
        | .error e => showErr e)
  | "enc", [e, pkt, pos, items] => do
      let e ← parseEncoding e; let pkt ← pkt.hex?; let pos ← pos.nat?; let items ← parseItems items
      pure (unsup e fun e =>
        match e.parseValue { raw := ⟨pkt, pos⟩, items := items } with
        | .ok (v, r) => s!"ok {showCls v.cls} {showVal v.val} {showVal v.raw} {r.pos}"
        | .error err => showErr err)
  | "ptype", [t, pkt, pos, items] => do
      let t ← parsePType t; let pkt ← pkt.hex?; let pos ← pos.nat?; let items ← parseItems items
      pure (unsup t fun t =>
        match t.parseValue { raw := ⟨pkt, pos⟩, items := items } with
        | .ok (v, r) => s!"ok {showCls v.cls} {showVal v.val} {showVal v.raw} {r.pos}"
        | .error err => showErr err)
  | "parse", [d, root, pkt] => do
      let d ← parseDef d; let root ← root.optStr?; let pkt ← pkt.hex?
      pure (unsup d fun d => showParse (parsePacket d (root.getD d.root) pkt))
  | "gen", [d, root, .list [pb, ho, cb, sh, yu], skip, chunks] => do
      let d ← parseDef d; let root ← root.optStr?
      let o : GenOpts := { parseBad := ← pb.bool?, headersOnly := ← ho.bool?, combine := ← cb.bool?,
                           secHdrBytes := ← sh.nat?, yieldUnrec := ← yu.bool? }
      let skip ← skip.nat?; let chunks ← hexList2? chunks
      let total := (chunks.map List.length).foldl (· + ·) 0
      pure (unsup d fun d =>
        let evs := packetGenerator d (root.getD d.root) o ⟨skip, TRIM_THRESHOLD⟩ (initFile chunks total)
        showEvents "events" evs)
  | "genxml", [_xml, d, root, .list [pb, ho, cb, sh, yu], skip, SExp.atom kind, _r, chunks] => do
      let d ← parseDef d; let root ← root.optStr?
      let o : GenOpts := { parseBad := ← pb.bool?, headersOnly := ← ho.bool?, combine := ← cb.bool?,
                           secHdrBytes := ← sh.nat?, yieldUnrec := ← yu.bool? }
      let skip ← skip.nat?; let chunks ← hexList2? chunks
      let total := (chunks.map List.length).foldl (· + ·) 0
      let st ← if kind == "bytes" then some (initBytes chunks.flatten)
               else if kind == "file" then some (initFile chunks total)
               else if kind == "socket" then some (initSocket chunks) else none
      pure (unsup d fun d =>
        let evs := packetGenerator d (root.getD d.root) o ⟨skip, TRIM_THRESHOLD⟩ st
        showEvents "events" evs)
  | "gensched", [d, root, .list [pb, ho, cb, sh, yu], skip, .list srcs, _sched] => do
      let d ← parseDef d
      -- one root-container override for all generators, or one per generator
      let roots : List (Option String) ← match root with
        | .list rs => rs.mapM (·.optStr?)
        | r => do let r ← r.optStr?; pure (srcs.map (fun _ => r))
      let o : GenOpts := { parseBad := ← pb.bool?, headersOnly := ← ho.bool?, combine := ← cb.bool?,
                           secHdrBytes := ← sh.nat?, yieldUnrec := ← yu.bool? }
      let skip ← skip.nat?
      let srcs ← srcs.mapM hexList2?
      pure (unsup d fun d =>
        let outs := (srcs.zip roots).map (fun (chunks, root) =>
          let total := (chunks.map List.length).foldl (· + ·) 0
          let evs := packetGenerator d (root.getD d.root) o ⟨skip, TRIM_THRESHOLD⟩ (initFile chunks total)
          showEvents "G" evs)
        if outs.contains "unsupported" then "unsupported" else "sched " ++ " | ".intercalate outs)
  | "const", [.atom "ops"] =>
      some ("ok " ++ " ".intercalate (validOperators.map (fun (s, o) =>
        "s" ++ (showHex s.toUTF8.toList).drop 1 ++ ":" ++ (match o with
          | .eq => "__eq__" | .ne => "__ne__" | .lt => "__lt__" | .gt => "__gt__" | .le => "__le__" | .ge => "__ge__"))))
  | _, _ => none

end Driver
