import Driver.OpsXtce
import Spp.Model.Xarr
namespace Driver
open Spp

def showDType : DType → String
  | .uint w => s!"uint{w}" | .int w => s!"int{w}" | .float w => s!"float{w}"
  | .bytes => "bytes" | .str => "str" | .infer => "infer"

mutual
partial def entryParams : Entry → List (String × PType)
  | .param n t => [(n, t)]
  | .cont c => contParams c
partial def contParams : Container → List (String × PType)
  | .mk _ es _ _ _ _ => es.flatMap entryParams
end

def opsXarr (op : String) (args : List SExp) : Option String :=
  match op, args with
  | "dataset", [d, raw, .list files] => do
      let d ← parseDef d; let useRaw ← raw.bool?
      let files ← files.mapM hexList2?
      pure (unsup d fun d =>
        let params : List (String × PType) := d.containers.flatMap (fun kv => contParams kv.2)
        -- run the generator per file; the first escaping exception is what create_dataset raises
        let runs := files.map (fun chunks =>
          let total := (chunks.map List.length).foldl (· + ·) 0
          packetGenerator d d.root {} ⟨0, TRIM_THRESHOLD⟩ (initFile chunks total))
        let firstErr := runs.flatten.findSome? (fun e => match e with | .raised err => some err | _ => none)
        match firstErr with
        | some Err.unsupported => "unsupported"
        | some err => showErr err
        | none =>
          let pkts : List (List DsPacket) := runs.map (fun evs => evs.filterMap (fun e => match e with
            | .packet p => some { apid := apidOf p.raw.data, cells := p.items }
            | _ => none))
          match createDataset pkts with
          | none => "err value"
          | some st =>
            "dataset" ++ String.join (st.map (fun e =>
              let (apid, keys, rows) := (e.1, e.2.1, e.2.2)
              s!" A {apid} {rows.length}" ++ String.join ((List.range keys.length).map (fun j =>
                let k := keys[j]!
                let dt := match params.find? (·.1 == k) with
                  | some (_, t) => showDType (minNumpyDtype t useRaw)
                  | none => "?"
                -- dtype None: numpy infers a numeric dtype from the values; cells are then compared numerically
                let numForm : PyVal → PyVal := fun v => match v with
                  | .int i => if dt == "infer" then .flt (.fin i) else v
                  | v => v
                let cells := rows.map (fun r => match r[j]? with
                  | some p => showVal (numForm (if useRaw then p.raw else p.val))
                  | none => "?")
                " V " ++ "s" ++ (showHex k.toUTF8.toList).drop 1 ++ " " ++ dt ++ String.join (cells.map (" " ++ ·)))))))
  | _, _ => none

end Driver
