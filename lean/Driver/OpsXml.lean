import Driver.OpsXtce
import Spp.Model.XmlWrite
import Spp.Props.C09Regime
namespace Driver
open Spp

def S (s : String) : String := "s" ++ (showHex s.toUTF8.toList).drop 1
def optS : Option String → String | some s => S s | none => "-"
def optI : Option Int → String | some i => toString i | none => "-"
def B (b : Bool) : String := if b then "1" else "0"
def par (xs : List String) : String := "(" ++ " ".intercalate xs ++ ")"

/-! XML trees -/

partial def parseXml (e : SExp) : Option XmlNode :=
  match e with
  | .list [.atom "c", t] => do pure (.comment (← t.str?))
  | .list [.atom "e", ns, tag, .list attrs, text, .list kids] => do
    let ns ← ns.optStr?; let tag ← tag.str?; let text ← text.optStr?
    let attrs ← attrs.mapM (fun a => match a with
      | .list [k, v] => do pure ((← k.str?), (← v.str?))
      | _ => none)
    let kids ← kids.mapM parseXml
    pure (.elem ns tag attrs text kids)
  | _ => none

/-- Attributes are printed sorted by name: their order in a serialised element carries no meaning (and no property
    speaks about it), so neither side of the comparison depends on the order a writer happens to emit them in. -/
partial def showXml : XmlNode → String
  | .comment s => par ["c", S s]
  | .elem ns tag attrs text kids =>
    par ["e", optS ns, S tag, par ((attrs.mergeSort (fun a b => !(b.1 < a.1))).map (fun kv => par [S kv.1, S kv.2])),
         optS text, par (kids.map showXml)]

def parseNsCtx (pfx nsmap : SExp) : Option NsCtx := do
  let p ← pfx.optStr?
  let m ← match nsmap with
    | .list xs => xs.mapM (fun a => match a with
      | .list [k, v] => do pure ((← k.optStr?), (← v.str?))
      | _ => none)
    | _ => none
  pure { nsPrefix := p, nsmap := m }

/-! printing the object graph in the request syntax (same as harness/xser.py) -/

def showComparison (c : Comparison) : String := par ["cmp", S c.ref, S c.op, S c.requiredValue, B c.useCal]
def showCondition (c : Condition) : String :=
  par ["cond", S c.left, S c.op, optS c.rightParam, optS c.rightValue, B c.leftCal, B c.rightCal]

mutual
partial def showAnded : Anded → String
  | .mk cs os => par ["and", par (cs.map showCondition), par (os.map showOred)]
partial def showOred : Ored → String
  | .mk cs as => par ["or", par (cs.map showCondition), par (as.map showAnded)]
end

def showCriterion : Criterion → String
  | .comparison c => showComparison c
  | .boolExpr (.cond c) => par ["bexpr", showCondition c]
  | .boolExpr (.anded a) => par ["bexpr", showAnded a]
  | .boolExpr (.ored o) => par ["bexpr", showOred o]

def showDL (d : DiscreteLookup) : String := par ["dl", par (d.criteria.map showComparison), showVal d.value]

def showRatF (q : Rat) : String := showVal (.flt (.fin q))

def showCalibrator : Calibrator → String
  | .poly ts => par (["poly"] ++ ts.map (fun t =>
      par [(if t.isInt && t.coef.den == 1 then s!"i{t.coef.num}" else showRatF t.coef), toString t.exp]))
  | .spline s => par (["spline", toString s.order, B s.extrapolate] ++ s.points.map (fun p => par [showRatF p.raw, showRatF p.cal]))

def showCals (c : Calibs) : String :=
  par [match c.default with | some d => showCalibrator d | none => "-",
       par (c.contexts.map (fun x => par ["ctx", par (x.criteria.map showCriterion), showCalibrator x.calibrator]))]

def showAdj : Option LinAdj → String
  | some a => par [toString a.slope, toString a.intercept]
  | none => "-"

def showLookup : Option (List DiscreteLookup) → String
  | some l => par (l.map showDL)
  | none => "-"

def showEncoding : Encoding → String
  | .num e => par [if e.isFloat then "float" else "int", toString e.size, S e.encoding, S e.byteOrder, showCals e.cals]
  | .str e => par ["str", S e.encoding, optI e.fixedLength, optS e.dynRef, showLookup e.lookup, B e.useCal, showAdj e.adjuster,
                   (match e.termChar with | some t => showHex t | none => "-"), optI e.leadingSize, optS e.byteOrder]
  | .bin e => par ["bin", optI e.fixedSize, optS e.sizeRef, B e.useCal, showLookup e.lookup, showAdj e.adjuster]

def showLPType (t : LPType) : String :=
  par ["lpt", S t.tag, S t.name, optS t.unit, showEncoding t.enc,
       par (t.enumeration.map (fun kv => par [showVal kv.1, S kv.2])), optS t.epoch, optS t.offsetFrom]

def showLParam (p : LParam) : String := par ["lp", S p.name, S p.typeName, optS p.shortDesc, optS p.longDesc]

def showLContainer (c : LContainer) : String :=
  par ["lc", S c.name, par (c.entries.map (fun e => match e with | .param n => par ["p", S n] | .cont n => par ["c", S n])),
       optS c.shortDesc, optS c.longDesc, optS c.base, par (c.criteria.map showCriterion), B c.abstract,
       par (c.inheritors.map S)]

def showLDef (d : LDef) : String :=
  par ["ldef", S d.root, optS d.date, optS d.spaceSystemName, optS d.nsPrefix,
       par (d.nsmap.map (fun kv => par [optS kv.1, S kv.2])),
       par (d.ptypes.map (fun kv => showLPType kv.2)), par (d.params.map (fun kv => showLParam kv.2)),
       par (d.containers.map (fun kv => showLContainer kv.2))]

/-! parsing the object graph (for definitions assembled from objects) -/

def parseLPType (e : SExp) : Option (Option LPType) :=
  match e with
  | .list [.atom "lpt", tag, name, unit, enc, .list en, epoch, off] => do
    let tag ← tag.str?; let name ← name.str?; let unit ← unit.optStr?
    let enc ← parseEncoding enc
    let en ← en.mapM (fun kv => match kv with
      | SExp.list [k, l] => do
        let k ← k.val?; let l ← l.str?
        pure (k, l)
      | _ => none)
    let epoch ← epoch.optStr?; let off ← off.optStr?
    pure (enc.map (fun enc => { tag := tag, name := name, unit := unit, enc := enc, enumeration := en, epoch := epoch,
                                offsetFrom := off }))
  | _ => none

def parseLParam (e : SExp) : Option LParam :=
  match e with
  | .list [.atom "lp", n, t, s, l] => do
    let n ← n.str?; let t ← t.str?; let s ← s.optStr?; let l ← l.optStr?
    let p : LParam := { name := n, typeName := t, shortDesc := s, longDesc := l }
    pure p
  | _ => none

def parseLContainer (e : SExp) : Option LContainer :=
  match e with
  | .list [.atom "lc", n, .list ents, s, l, base, .list crit, ab, .list inh] => do
    let ents ← ents.mapM (fun x => match x with
      | SExp.list [SExp.atom k, nm] => do
        let nm ← nm.str?
        if k == "p" then pure (LEntry.param nm) else if k == "c" then pure (LEntry.cont nm) else none
      | _ => none)
    let n ← n.str?; let s ← s.optStr?; let l ← l.optStr?; let base ← base.optStr?
    let crit ← crit.mapM parseCriterion; let ab ← ab.bool?; let inh ← inh.mapM SExp.str?
    let c : LContainer := { name := n, entries := ents, shortDesc := s, longDesc := l, base := base,
                            criteria := crit, abstract := ab, inheritors := inh }
    pure c
  | _ => none

def parseLDef (e : SExp) : Option (Option LDef) :=
  match e with
  | .list [.atom "ldef", root, date, ssn, pfx, nsmap, .list ts, .list ps, .list cs] => do
    let ctx ← parseNsCtx pfx nsmap
    let ts ← ts.mapM parseLPType
    let ps ← ps.mapM parseLParam
    let cs ← cs.mapM parseLContainer
    let root ← root.str?; let date ← date.optStr?; let ssn ← ssn.optStr?
    let psl : List (String × LParam) := ps.map (fun p => (p.name, p))
    let csl : CLookup := cs.map (fun c => (c.name, c))
    let mk : List LPType → LDef := fun ts =>
      let tsl : List (String × LPType) := ts.map (fun t => (t.name, t))
      { ptypes := tsl, params := psl, containers := csl, root := root, date := date, spaceSystemName := ssn,
        nsPrefix := ctx.nsPrefix, nsmap := ctx.nsmap }
    pure ((ts.mapM id).map mk)
  | _ => none

def showLoad : LoadM LDef → String
  | .ok d => "ok " ++ showLDef d
  | .error .unsupported => "unsupported"
  | .error _ => "err"

/-- write, load, write, load, write — the stages of the round-trip properties. -/
def cycle (d : LDef) : String :=
  match toXml d with
  | .error .unsupported => "unsupported"
  | .error _ => "err write1"
  | .ok g1 =>
    match loadXtce { nsPrefix := d.nsPrefix, nsmap := d.nsmap } d.root g1 with
    | .error .unsupported => "unsupported"
    | .error _ => "err load1 " ++ showXml g1
    | .ok d2 =>
      match toXml d2 with
      | .error .unsupported => "unsupported"
      | .error _ => "err write2"
      | .ok g2 =>
        match loadXtce { nsPrefix := d.nsPrefix, nsmap := d.nsmap } d.root g2 with
        | .error .unsupported => "unsupported"
        | .error _ => "err load2"
        | .ok d3 =>
          match toXml d3 with
          | .error .unsupported => "unsupported"
          | .error _ => "err write3"
          | .ok g3 => "ok G1 " ++ showXml g1 ++ " D2 " ++ showLDef d2 ++ " G2 " ++ showXml g2 ++ " D3 " ++ showLDef d3 ++
                      " G3 " ++ showXml g3

/-- Is the definition inside the regime of `C09.definition_roundtrip`?  The verdict `in` is `C09.inRegime` (proved sound:
    `C09.inRegime_sound`); the part named after `out` is diagnostic only (first conjunct of the test that fails). -/
def regimeReport (d : LDef) : String :=
  if C09.inRegime d then "in" else
  let parts : List (String × Bool) := [
    ("namespace", d.nsPrefix.isNone || d.nsmap.any (·.1 == d.nsPrefix)),
    ("space-system-name", d.spaceSystemName != some ""),
    ("type-keys", d.ptypes.all (fun kv => kv.1 == kv.2.name) && decide (UniqueKeys d.ptypes)),
    ("type-plain-or-enum-or-time", d.ptypes.all (fun kv => C09.ptypeWFb kv.2)),
    ("parameter-keys", d.params.all (fun kv => kv.1 == kv.2.name) && decide (UniqueKeys d.params)),
    ("parameter-description", d.params.all (fun kv => kv.2.longDesc != some "")),
    ("parameter-type-declared", d.params.all (fun kv => d.ptypes.any (·.1 == kv.2.typeName))),
    ("containers-in-dependency-order", C09.sortedFromb d.params [] d.containers),
    ("inheritor-lists", d.containers.all (fun kv => kv.2.inheritors == C17.basedOn d.containers kv.1)),
    ("tables-in-cache-order", (match C09.cachesOf d.ptypes d.params d.containers with
       | .ok r => decide (r = (d.ptypes, d.params, d.containers)) | .error _ => false))]
  match parts.find? (fun p => !p.2) with
  | some p =>
    if p.1 == "type-plain-or-enum-or-time" then
      -- say which kind of type, and whether its encoding is the reason
      match d.ptypes.find? (fun kv => !C09.ptypeWFb kv.2) with
      | some kv => "out type " ++ kv.2.tag ++ (if C09.encWFb kv.2.enc then " shape" else
          (match kv.2.enc with | .num _ => " numeric-encoding" | .str _ => " string-encoding" | .bin _ => " binary-encoding"))
      | none => "out type"
    else "out " ++ p.1
  | none => "out unknown"

def opsXml (op : String) (args : List SExp) : Option String :=
  match op, args with
  | "load", [pfx, nsmap, root, tree] => do
      let ctx ← parseNsCtx pfx nsmap; let root ← root.str?; let tree ← parseXml tree
      pure (showLoad (loadXtce ctx root tree))
  | "loadseq", [root, .list loads] => do
      let root ← root.str?
      let rs ← loads.mapM (fun l => match l with
        | SExp.list [pfx, nsmap, tree] => do
          let ctx ← parseNsCtx pfx nsmap; let tree ← parseXml tree
          pure (showLoad (loadXtce ctx root tree))
        | _ => none)
      pure (if rs.contains "unsupported" then "unsupported" else "seq " ++ " | ".intercalate rs)
  | "cyclexml", [pfx, nsmap, root, tree] => do
      let ctx ← parseNsCtx pfx nsmap; let root ← root.str?; let tree ← parseXml tree
      pure (match loadXtce ctx root tree with
        | .ok d => "D1 " ++ showLDef d ++ " " ++ cycle d
        | .error .unsupported => "unsupported"
        | .error _ => "err load0")
  | "cycleobj", [d] => do
      let d ← parseLDef d
      pure (unsup d cycle)
  | "regime", [d] => do
      let d ← parseLDef d
      pure (unsup d regimeReport)
  | "showfloat", [v] => do
      let v ← v.val?
      pure (match v with
        | .flt f => (match showFloat f with | .ok s => "ok " ++ S s | .error _ => "unsupported")
        | _ => "unsupported")
  | "readfloat", [s] => do
      let s ← s.str?
      pure (match readFloat s with | .ok f => "ok " ++ showVal (.flt f) | .error .unsupported => "unsupported" | .error _ => "err")
  | _, _ => none

end Driver
