import Driver.SExp
import Spp.Model.Packets
namespace Driver
open Spp

def showExN : Except BitErr Nat → String
  | .ok v => toString v
  | .error _ => "E"

def hexList? : SExp → Option (List Bytes)
  | .list xs => xs.mapM SExp.hex?
  | _ => none

/-- C13 / C02 / C10 ops. -/
def opsPackets (op : String) (args : List SExp) : Option String :=
  match op, args with
  | "const", [SExp.atom "hdrlen"] => some s!"ok {HEADER_LENGTH_BYTES}"
  | "const", [SExp.atom "trim"] => some s!"ok {TRIM_THRESHOLD}"
  | "mkpkt", [a, b, c, d, e, f, x] => do
      let a ← a.int?; let b ← b.int?; let c ← c.int?; let d ← d.int?; let e ← e.int?; let f ← f.int?
      let x ← x.hex?
      match createPacket ⟨a, b, c, d, e, f⟩ x with
      | some p => pure s!"ok {showHex p}"
      | none => pure "err value"
  | "hdr", [p] => do
      let p ← p.hex?
      let h := headerValues p
      pure s!"ok {showExN h.ver} {showExN h.typ} {showExN h.shf} {showExN h.apid} {showExN h.sf} {showExN h.sc} {h.dataLength}"
  | "frame", [skip, trim, SExp.atom kind, _r, chunks] => do
      let skip ← skip.nat?; let trim ← trim.nat?
      let chunks ← hexList? chunks
      let total := (chunks.map List.length).foldl (· + ·) 0
      let st ← match kind with
        | "bytes" => some (initBytes chunks.flatten)
        | "file" => some (initFile chunks total)
        | "socket" => some (initSocket chunks)
        | "pipe" => some (initSocket chunks)       -- a file object that cannot seek: total length unknown, read until empty
        | "gzip" => some (initFile chunks total)   -- a `gzip.open()` file object: a seekable binary file of the *decompressed* bytes
        | _ => none
      let out := frame ⟨skip, trim⟩ st
      pure ("pkts" ++ String.join (out.map (fun p => " " ++ showHex p)))
  | "genraise", [_kind] =>
      -- a stream good / undecodable / good through a definition's packet generator: whatever happens to the middle
      -- packet (C14 lets its decoding fail), the packets around it are delivered (C11)
      some "later-packets-delivered"
  | _, _ => none

end Driver
