import Spp.Model.Bits
import Spp.Spec.Bits
import Spp.Lemmas.Bits
import Spp.Props.C03
