/-!
Design skeleton (type-checked, no proofs, no `sorry`, no axioms): the datatypes of the planned model,
the Spec-layer definitions that are short enough to write now, the *signatures* of the Model-layer
functions (bundled as fields of `structure Model`, so that statements can be type-checked before the
functions exist), and the planned property statements as `def … : Prop`.
-/

abbrev Bytes := List UInt8
abbrev Name := String

/-! ## Values -/

inductive FVal
  | fin (q : Rat) | negZero | inf (neg : Bool) | nan
deriving DecidableEq, Repr

inductive PyVal
  | int (i : Int) | float (f : FVal) | str (s : String) | bytes (b : Bytes)
deriving DecidableEq, Repr

inductive Cls | intP | floatP | strP | binP | boolP
deriving DecidableEq, Repr

/-- a parsed parameter value: built-in subclass instance + `raw_value` -/
structure Param where
  cls : Cls
  val : PyVal
  raw : PyVal
deriving DecidableEq, Repr

/-- `_Parameter.__new__` : `raw_value if raw_value is not None else value` -/
def mkParam (c : Cls) (v : PyVal) (raw? : Option PyVal) : Param := ⟨c, v, raw?.getD v⟩

abbrev Items := List (Name × Param)       -- insertion-ordered dict

inductive Err
  | valueError | typeError | keyError | comparisonError | calibrationError | notImplemented
  | overflow | recursion | unrecognized (partialData : Items) | other
deriving DecidableEq, Repr

structure Pkt where
  data  : Bytes
  pos   : Nat
  items : Items
deriving DecidableEq, Repr

/-! ## Spec layer: bits -/

def byteBits (b : UInt8) : List Bool := (List.range 8).map (fun i => b.toNat.testBit (7 - i))
def bits (B : Bytes) : List Bool := B.flatMap byteBits
def natOfBits : List Bool → Nat := List.foldl (fun acc b => 2 * acc + (if b then 1 else 0)) 0
/-- unsigned big-endian value of bits p .. p+n-1 (bit 0 = MSB of byte 0) -/
def fieldVal (B : Bytes) (p n : Nat) : Nat := natOfBits (((bits B).drop p).take n)
def fromBytesBE (bs : Bytes) : Nat := bs.foldl (fun acc b => acc * 256 + b.toNat) 0
def fromBytesLE (bs : Bytes) : Nat := fromBytesBE bs.reverse
def toBytesBE : Nat → Nat → Bytes
  | 0, _ => []
  | k+1, v => toBytesBE k (v / 256) ++ [UInt8.ofNat (v % 256)]
def twos (n : Nat) (v : Nat) : Int := if v < 2^(n-1) then v else (v : Int) - 2^n

/-! ## Spec layer: IEEE-754 and MIL-STD-1750A -/

def ieeeParams : Nat → Nat × Nat | 16 => (5, 10) | 32 => (8, 23) | _ => (11, 52)
def pow2 (e : Int) : Rat := if e ≥ 0 then (2 : Rat)^e.toNat else 1 / (2 : Rat)^(-e).toNat
def ieeeVal (w : Nat) (x : Nat) : FVal :=
  let (eb, mb) := ieeeParams w
  let s := x / 2^(w-1) % 2 == 1
  let e := x / 2^mb % 2^eb
  let m := x % 2^mb
  let bias : Int := 2^(eb-1) - 1
  if e = 2^eb - 1 then (if m = 0 then .inf s else .nan)
  else if e = 0 ∧ m = 0 then (if s then .negZero else .fin 0)
  else
    let mag : Rat := if e = 0 then (m : Rat) * pow2 (1 - bias - mb) else ((2^mb + m : Nat) : Rat) * pow2 (e - bias - mb)
    .fin (if s then -mag else mag)
def mil1750aVal (x : Nat) : FVal := .fin ((twos 24 (x / 256) : Int) * pow2 (twos 8 (x % 256) - 23))

/-! ## Definitions (XTCE object model) -/

inductive ByteOrder | msb | lsb deriving DecidableEq, Repr

structure Comparison where
  ref : Name
  op : String            -- any accepted spelling
  lit : String
  useCal : Bool
deriving DecidableEq, Repr

structure Condition where
  left : Name
  leftCal : Bool
  op : String
  rightParam : Option (Name × Bool)
  rightLit : Option String
deriving DecidableEq, Repr

mutual
inductive Anded | mk (conds : List Condition) (ors : List Ored)
inductive Ored  | mk (conds : List Condition) (ands : List Anded)
end

inductive BoolExpr | cond (c : Condition) | anded (a : Anded) | ored (o : Ored)
inductive Criterion | cmp (c : Comparison) | bexp (b : BoolExpr)

structure DiscreteLookup where
  criteria : List Comparison
  value : Rat

structure Spline where
  points : List (Rat × Rat)
  order : Nat
  extrapolate : Bool
structure Poly where
  terms : List (Rat × Int)          -- (coefficient, exponent)
inductive Calibrator | spline (s : Spline) | poly (p : Poly)
structure ContextCal where
  criteria : List Criterion
  cal : Calibrator

structure NumEnc where
  size : Nat
  encoding : String                 -- "unsigned" | "signed" | "twosComplement" | "IEEE754" | "MILSTD_1750A" …
  byteOrder : ByteOrder
  default : Option Calibrator
  ctx : Option (List ContextCal)

structure LinAdj where
  slope : Int
  intercept : Int
inductive LenSpec
  | fixed (n : Int)
  | ref (name : Name) (useCal : Bool) (adj : Option LinAdj)
  | lookup (l : List DiscreteLookup)

structure StrEnc where
  charset : String
  byteOrder : Option ByteOrder
  len : LenSpec
  term : Option Bytes
  leading : Option Nat
structure BinEnc where
  len : LenSpec

inductive Encoding | int (e : NumEnc) | float (e : NumEnc) | str (e : StrEnc) | bin (e : BinEnc)

inductive Kind
  | string | integer | float | binary | boolean
  | enumerated (table : List (PyVal × String))
  | absTime (epoch offsetFrom : Option String) | relTime (epoch offsetFrom : Option String)

structure PType where
  name : Name
  kind : Kind
  enc : Encoding
  unit : Option String

structure Parameter where
  name : Name
  ptype : PType
  short : Option String
  long : Option String

mutual
inductive Entry | param (p : Parameter) | cont (c : Container)
inductive Container
  | mk (name : Name) (entries : List Entry) (short long : Option String) (base : Option Name)
       (criteria : List Criterion) (abstract : Bool) (inheritors : List Name)
end

def Container.name : Container → Name | .mk n .. => n
def Container.entries : Container → List Entry | .mk _ e .. => e
def Container.base : Container → Option Name | .mk _ _ _ _ b .. => b
def Container.criteria : Container → List Criterion | .mk _ _ _ _ _ c .. => c
def Container.abstract : Container → Bool | .mk _ _ _ _ _ _ a _ => a
def Container.inheritors : Container → List Name | .mk _ _ _ _ _ _ _ i => i

structure Definition where
  types : List (Name × PType)
  params : List (Name × Parameter)
  containers : List (Name × Container)
  ns : List (Option String × String)
  nsPrefix : Option String
  root : Name
  spaceSystem : Option String
  date : Option String

/-! ## XML -/

inductive XmlNode
  | elem (ns : Option String) (tag : String) (attrs : List (String × String)) (text : Option String)
         (children : List XmlNode)
  | comment (s : String)

structure LoaderState where
  nsmap : List (Option String × String)
  nsPrefix : Option String

/-! ## Framing and generator -/

structure FrameCfg where
  skip : Nat
  trim : Nat
inductive SourceKind | bytes | file | socket deriving DecidableEq
structure Source where
  kind : SourceKind
  initial : Bytes            -- pre-filled buffer (bytes source)
  reads : List Bytes         -- results of successive read()/recv(); [] = end of stream

structure GenOpts where
  parseBad : Bool := true
  headersOnly : Bool := false
  combine : Bool := false
  secHdr : Nat := 0
  yieldErrors : Bool := false
  skip : Nat := 0

inductive GenItem
  | raw (b : Bytes)                              -- ccsds_headers_only
  | packet (data : Bytes) (items : Items) (pos : Nat) (warned : Bool)
  | unrecognized (data : Bytes) (partialData : Items)

inductive DType | u8 | u16 | u32 | u64 | i8 | i16 | i32 | i64 | f32 | f64 | bytesS | strU | infer
deriving DecidableEq

inductive Row | pkt (i : Nat) | ellipsis deriving DecidableEq, Repr

/-! ## Model layer: signatures only -/

structure Model where
  extractBits   : Bytes → Nat → Nat → Except Err Nat
  readAsInt     : Pkt → Int → Except Err (Nat × Pkt)
  readAsBytes   : Pkt → Int → Except Err (Bytes × Pkt)
  createPacket  : (ver typ shf apid sf sc : Int) → Bytes → Except Err Bytes
  headerValues  : Bytes → Except Err (Nat × Nat × Nat × Nat × Nat × Nat × Int)
  frame         : FrameCfg → Source → List Bytes
  evalCriterion : Criterion → Pkt → Option PyVal → Except Err Bool
  evalLookup    : DiscreteLookup → Pkt → Except Err (Option Rat)
  calibrate     : Calibrator → PyVal → Except Err Rat
  parseEncoding : Encoding → Pkt → Except Err (Param × Pkt)
  parseType     : PType → Pkt → Except Err (Param × Pkt)
  parseEntries  : List Entry → Pkt → Except Err Pkt
  parsePacket   : Definition → Option Name → Pkt → Except Err Pkt
  generator     : Definition → GenOpts → Source → List GenItem
  load          : LoaderState → Option String → XmlNode → Except Err Definition × LoaderState
  toXml         : Definition → Except Err XmlNode
  minDtype      : Definition → Name → Bool → Except Err DType
  rowsToShow    : Nat → List Row

/-! ## Planned property statements (a selection; each becomes a theorem about the concrete model) -/

variable (M : Model)

def C03_read_as_int : Prop :=
  ∀ (B : Bytes) (p n : Nat) (it : Items), p + n ≤ 8 * B.length →
    M.readAsInt ⟨B, p, it⟩ n = .ok (fieldVal B p n, ⟨B, p + n, it⟩)

def C03_read_as_bytes : Prop :=
  ∀ (B : Bytes) (p n : Nat) (it : Items), p + n ≤ 8 * B.length →
    M.readAsBytes ⟨B, p, it⟩ n = .ok (toBytesBE ((n + 7) / 8) (fieldVal B p n), ⟨B, p + n, it⟩)

def C14_read_as_bytes_guard : Prop :=
  ∀ (B : Bytes) (p : Nat) (n : Int) (it : Items), (n < 0 ∨ 8 * (B.length : Int) < p + n) →
    ∃ e, M.readAsBytes ⟨B, p, it⟩ n = .error e

def InRange (ver typ shf apid sf sc : Int) : Prop :=
  0 ≤ ver ∧ ver ≤ 7 ∧ 0 ≤ typ ∧ typ ≤ 1 ∧ 0 ≤ shf ∧ shf ≤ 1 ∧ 0 ≤ apid ∧ apid ≤ 2047 ∧
  0 ≤ sf ∧ sf ≤ 3 ∧ 0 ≤ sc ∧ sc ≤ 16383

def C13_roundtrip : Prop :=
  ∀ ver typ shf apid sf sc (d : Bytes), InRange ver typ shf apid sf sc → 1 ≤ d.length → d.length ≤ 65536 →
    ∃ pkt, M.createPacket ver typ shf apid sf sc d = .ok pkt ∧ pkt.drop 6 = d ∧ pkt.length = 6 + d.length ∧
      M.headerValues pkt = .ok (ver.toNat, typ.toNat, shf.toNat, apid.toNat, sf.toNat, sc.toNat, d.length - 1) ∧
      fieldVal pkt 0 3 = ver.toNat ∧ fieldVal pkt 3 1 = typ.toNat ∧ fieldVal pkt 4 1 = shf.toNat ∧
      fieldVal pkt 5 11 = apid.toNat ∧ fieldVal pkt 16 2 = sf.toNat ∧ fieldVal pkt 18 14 = sc.toNat ∧
      fieldVal pkt 32 16 = d.length - 1

def C13_rejects : Prop :=
  ∀ ver typ shf apid sf sc (d : Bytes), (¬ InRange ver typ shf apid sf sc ∨ d.length = 0 ∨ 65536 < d.length) →
    M.createPacket ver typ shf apid sf sc d = .error .valueError

def wfPacket (p : Bytes) : Prop := p.length = 7 + fieldVal p 32 16

def interleave (k : Nat) : List (Bytes × Bytes) → Bytes
  | [] => []
  | (pre, p) :: xs => pre ++ p ++ interleave k xs

def C02_frame_exact : Prop :=
  ∀ (k trim : Nat) (items : List (Bytes × Bytes)) (src : Source),
    (∀ x ∈ items, x.1.length = k ∧ wfPacket x.2) → (∀ c ∈ src.reads, c ≠ []) →
    src.initial ++ src.reads.flatten = interleave k items →
    M.frame ⟨k, trim⟩ src = items.map (·.2)

def C10_items_complete : Prop :=
  ∀ cfg src, (∀ x ∈ M.frame cfg src, wfPacket x)

def C10_consecutive_and_remainder : Prop :=
  ∀ cfg src, ∃ (pres : List Bytes) (rest : Bytes),
    pres.length = (M.frame cfg src).length ∧ (∀ p ∈ pres, p.length = cfg.skip) ∧
    src.initial ++ src.reads.flatten = interleave cfg.skip (pres.zip (M.frame cfg src)) ++ rest ∧
    (rest.length < cfg.skip + 6 ∨ rest.length < cfg.skip + 7 + fieldVal (rest.drop cfg.skip) 32 16)

def intEnc (n : Nat) (enc : String) (bo : ByteOrder) : Encoding := .int ⟨n, enc, bo, none, none⟩

def C04_int_msb : Prop :=
  ∀ (B : Bytes) (p n : Nat) (it : Items) (enc : String), 0 < n → p + n ≤ 8 * B.length →
    enc ∈ ["unsigned", "signed", "twosComplement"] →
    let v : Int := if enc = "unsigned" then fieldVal B p n else twos n (fieldVal B p n)
    M.parseEncoding (intEnc n enc .msb) ⟨B, p, it⟩ = .ok (mkParam .intP (.int v) none, ⟨B, p + n, it⟩)

def C04_float_ieee : Prop :=
  ∀ (B : Bytes) (p w : Nat) (it : Items) (bo : ByteOrder), w ∈ [16, 32, 64] → p + w ≤ 8 * B.length →
    let fb := toBytesBE (w / 8) (fieldVal B p w)
    let x := match bo with | .msb => fromBytesBE fb | .lsb => fromBytesLE fb
    M.parseEncoding (.float ⟨w, "IEEE754", bo, none, none⟩) ⟨B, p, it⟩
      = .ok (mkParam .floatP (.float (ieeeVal w x)) none, ⟨B, p + w, it⟩)

def C12_shape : Prop := True   -- see Seg.lean prototype: seg_per_apid, automaton refinement, at-most-once by counting

def C19_rows : Prop :=
  ∀ n, M.rowsToShow n =
    if n ≤ 10 then (List.range n).map Row.pkt
    else (List.range 5).map Row.pkt ++ [Row.ellipsis] ++ (List.range 5).map (fun i => Row.pkt (n - 5 + i))

def C20_raw_default : Prop := ∀ c v, (mkParam c v none).raw = v

def C16_history : Prop :=
  ∀ (s s' : LoaderState) (pfx : Option String) (x : XmlNode), (M.load s pfx x).1 = (M.load s' pfx x).1

def C15_fixpoint : Prop :=
  ∀ (s : LoaderState) (pfx : Option String) (g1 g2 : XmlNode) (d2 d3 : Definition),
    (M.load s pfx g1).1 = .ok d2 → M.toXml d2 = .ok g2 → (M.load s pfx g2).1 = .ok d3 → M.toXml d3 = .ok g2
