import io, warnings, traceback
warnings.simplefilter("ignore")
import lxml.etree as ET
from space_packet_parser import packets, common
from space_packet_parser.packets import create_ccsds_packet, CCSDSPacket
from space_packet_parser.xtce import comparisons as C, calibrators as K, encodings as E, parameter_types as PT, parameters as P, containers as SC, definitions as D

def tryit(label, f):
    try:
        print(label, "->", repr(f()))
    except BaseException as e:
        print(label, "-> EXC", type(e).__name__, e)

HDR = """<xtce:SpaceSystem name="T" xmlns:xtce="http://www.omg.org/spec/XTCE/20180204">
<xtce:Header date="2024" version="1.0" validationStatus="Working"/>
<xtce:TelemetryMetaData>
<xtce:ParameterTypeSet>
 <xtce:IntegerParameterType name="U8"><xtce:IntegerDataEncoding sizeInBits="8" encoding="unsigned"/></xtce:IntegerParameterType>
 %(types)s
</xtce:ParameterTypeSet>
<xtce:ParameterSet>
 <xtce:Parameter name="A" parameterTypeRef="U8"/>
 <xtce:Parameter name="B" parameterTypeRef="U8"/>
 %(params)s
</xtce:ParameterSet>
<xtce:ContainerSet>
 %(containers)s
</xtce:ContainerSet>
</xtce:TelemetryMetaData>
</xtce:SpaceSystem>"""
def doc(types="", params="", containers=""):
    return io.StringIO(HDR % dict(types=types, params=params, containers=containers))
def ser(d): return ET.tostring(d.to_xml_tree(), pretty_print=True).decode()

# 1. BaseContainer without RestrictionCriteria
c = """<xtce:SequenceContainer name="CCSDSPacket" abstract="true"><xtce:EntryList><xtce:ParameterRefEntry parameterRef="A"/></xtce:EntryList></xtce:SequenceContainer>
<xtce:SequenceContainer name="Child"><xtce:EntryList><xtce:ParameterRefEntry parameterRef="B"/></xtce:EntryList><xtce:BaseContainer containerRef="CCSDSPacket"/></xtce:SequenceContainer>"""
d = D.XtcePacketDefinition.from_xtce(doc(containers=c))
tryit("load base w/o restriction", lambda: (d.containers["Child"].base_container_name, d.containers["Child"].restriction_criteria, d.containers["CCSDSPacket"].inheritors))
tryit("write base w/o restriction", lambda: ser(d)[:50])
# 2. comment in ContextCalibratorList
t = """<xtce:IntegerParameterType name="CC"><xtce:IntegerDataEncoding sizeInBits="8" encoding="unsigned">
<xtce:ContextCalibratorList><!-- hello --><xtce:ContextCalibrator><xtce:ContextMatch><xtce:Comparison parameterRef="A" value="1"/></xtce:ContextMatch>
<xtce:Calibrator><xtce:PolynomialCalibrator><xtce:Term exponent="1" coefficient="2"/></xtce:PolynomialCalibrator></xtce:Calibrator></xtce:ContextCalibrator></xtce:ContextCalibratorList>
</xtce:IntegerDataEncoding></xtce:IntegerParameterType>"""
c1 = """<xtce:SequenceContainer name="CCSDSPacket"><xtce:EntryList><xtce:ParameterRefEntry parameterRef="A"/></xtce:EntryList></xtce:SequenceContainer>"""
tryit("comment in context calibrator list", lambda: D.XtcePacketDefinition.from_xtce(doc(types=t, containers=c1)).parameter_types["CC"] if False else D.XtcePacketDefinition.from_xtce(doc(types=t, params='<xtce:Parameter name="X" parameterTypeRef="CC"/>', containers=c1.replace('parameterRef="A"/>','parameterRef="A"/><xtce:ParameterRefEntry parameterRef="X"/>'))).parameter_types)
tryit("no comment", lambda: D.XtcePacketDefinition.from_xtce(doc(types=t.replace("<!-- hello -->",""), params='<xtce:Parameter name="X" parameterTypeRef="CC"/>', containers=c1.replace('parameterRef="A"/>','parameterRef="A"/><xtce:ParameterRefEntry parameterRef="X"/>'))).parameter_types)
# comment elsewhere: in EntryList, in ParameterSet, EnumerationList, SplineCalibrator, PolynomialCalibrator
c2 = """<xtce:SequenceContainer name="CCSDSPacket"><xtce:EntryList><!-- c --><xtce:ParameterRefEntry parameterRef="A"/></xtce:EntryList></xtce:SequenceContainer>"""
tryit("comment in entrylist", lambda: D.XtcePacketDefinition.from_xtce(doc(containers=c2)).containers)
# 3. time type w/o units
t = """<xtce:AbsoluteTimeParameterType name="TT"><xtce:Encoding scale="2" offset="1"><xtce:IntegerDataEncoding sizeInBits="8" encoding="unsigned"/></xtce:Encoding><xtce:ReferenceTime><xtce:Epoch>TAI</xtce:Epoch></xtce:ReferenceTime></xtce:AbsoluteTimeParameterType>"""
dd = D.XtcePacketDefinition.from_xtce(doc(types=t, params='<xtce:Parameter name="X" parameterTypeRef="TT"/>', containers=c1.replace('parameterRef="A"/>','parameterRef="A"/><xtce:ParameterRefEntry parameterRef="X"/>')))
tryit("time w/o units write", lambda: ser(dd))
t2 = t.replace('scale="2"','units="seconds" scale="2"')
dd = D.XtcePacketDefinition.from_xtce(doc(types=t2, params='<xtce:Parameter name="X" parameterTypeRef="TT"/>', containers=c1.replace('parameterRef="A"/>','parameterRef="A"/><xtce:ParameterRefEntry parameterRef="X"/>')))
tryit("time w units write", lambda: print(ser(dd)))
# unused parameter / type dropped on write?
dd = D.XtcePacketDefinition.from_xtce(doc(containers=c1))
tryit("unused param B retained?", lambda: (list(dd.parameters), list(dd.parameter_types)))
# cycles
cyc = """<xtce:SequenceContainer name="CCSDSPacket"><xtce:EntryList/><xtce:BaseContainer containerRef="X"/></xtce:SequenceContainer>
<xtce:SequenceContainer name="X"><xtce:EntryList/><xtce:BaseContainer containerRef="CCSDSPacket"/></xtce:SequenceContainer>"""
tryit("base cycle", lambda: D.XtcePacketDefinition.from_xtce(doc(containers=cyc)))
cyc = """<xtce:SequenceContainer name="CCSDSPacket"><xtce:EntryList><xtce:ContainerRefEntry containerRef="CCSDSPacket"/></xtce:EntryList></xtce:SequenceContainer>"""
tryit("self nest cycle", lambda: D.XtcePacketDefinition.from_xtce(doc(containers=cyc)))
# dangling
tryit("dangling param ref", lambda: D.XtcePacketDefinition.from_xtce(doc(containers=c1.replace('"A"','"NOPE"'))))
tryit("dangling type ref", lambda: D.XtcePacketDefinition.from_xtce(doc(params='<xtce:Parameter name="X" parameterTypeRef="NOPE"/>', containers=c1)))
tryit("dangling base", lambda: D.XtcePacketDefinition.from_xtce(doc(containers=c.replace('containerRef="CCSDSPacket"','containerRef="NOPE"'))))
tryit("dangling nested", lambda: D.XtcePacketDefinition.from_xtce(doc(containers=c1.replace('<xtce:ParameterRefEntry parameterRef="A"/>','<xtce:ContainerRefEntry containerRef="NOPE"/>'))))
# duplicate containers
tryit("dup identical container", lambda: list(D.XtcePacketDefinition.from_xtce(doc(containers=c1+c1)).containers))
tryit("dup conflicting container", lambda: list(D.XtcePacketDefinition.from_xtce(doc(containers=c1+c1.replace('"A"','"B"'))).containers))
tryit("dup param", lambda: D.XtcePacketDefinition.from_xtce(doc(params='<xtce:Parameter name="A" parameterTypeRef="U8"/>', containers=c1)))
tryit("dup type", lambda: D.XtcePacketDefinition.from_xtce(doc(types='<xtce:IntegerParameterType name="U8"><xtce:IntegerDataEncoding sizeInBits="8" encoding="unsigned"/></xtce:IntegerParameterType>', containers=c1)))
# dup identical container that is a base for a child -> inheritors?
c3 = c1 + c1 + """<xtce:SequenceContainer name="Child"><xtce:EntryList><xtce:ParameterRefEntry parameterRef="B"/></xtce:EntryList><xtce:BaseContainer containerRef="CCSDSPacket"><xtce:RestrictionCriteria><xtce:Comparison parameterRef="A" value="1"/></xtce:RestrictionCriteria></xtce:BaseContainer></xtce:SequenceContainer>"""
tryit("dup identical base referenced", lambda: D.XtcePacketDefinition.from_xtce(doc(containers=c3)).containers["CCSDSPacket"].inheritors)
