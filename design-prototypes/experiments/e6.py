import io, warnings, copy, pickle
warnings.simplefilter("ignore")
from space_packet_parser import packets, common
from space_packet_parser.packets import create_ccsds_packet, CCSDSPacket, SequenceFlags as SF
from space_packet_parser.xtce import definitions as D
from pathlib import Path
d = D.XtcePacketDefinition.from_xtce("/repo/tests/test_data/test_xtce.xml")
print(d.root_container_name, list(d.containers))
def pk(flag, cnt, data=b"\x00"*4, apid=99):
    return create_ccsds_packet(data, apid=apid, sequence_flags=flag, sequence_count=cnt)
def run(seq, **kw):
    s = b"".join(seq)
    out=[]
    with warnings.catch_warnings(record=True) as w:
        warnings.simplefilter("always")
        g = d.packet_generator(s, combine_segmented_packets=True, yield_unrecognized_packet_errors=True, **kw)
        for x in g:
            if isinstance(x, Exception): out.append(("ERR", bytes(x.partial_data.raw_data).hex()))
            else: out.append(("OK", bytes(x.raw_data).hex()))
    return out, [str(x.message)[:40] for x in w]
# stale group: F C L then another L with next seq count
print(run([pk(SF.FIRST,0,b"\xaa"*2), pk(SF.CONTINUATION,1,b"\xbb"*2), pk(SF.LAST,2,b"\xcc"*2), pk(SF.LAST,3,b"\xdd"*2)]))
# values
for v in [common.IntParameter(0), common.IntParameter(5, 0), common.FloatParameter(float('nan'), 3), common.StrParameter("", b""), common.BinaryParameter(b""), common.BoolParameter(False, 0)]:
    for f in (copy.copy, copy.deepcopy, lambda x: pickle.loads(pickle.dumps(x)), lambda x: pickle.loads(pickle.dumps(x, 0))):
        w = f(v)
        assert type(w) is type(v) and (w == v or v != v) and w.raw_value == v.raw_value and type(w.raw_value) is type(v.raw_value), (v, w)
p = CCSDSPacket(raw_data=b"\x01\x02\x03")
p["A"] = common.IntParameter(1, 0); p.raw_data.read_as_int(5)
for f in (copy.copy, copy.deepcopy, lambda x: pickle.loads(pickle.dumps(x))):
    q = f(p); print(type(q).__name__, dict(q), bytes(q.raw_data), q.raw_data.pos, type(q.raw_data).__name__, q["A"].raw_value)
print(repr(common.BoolParameter(True)), str(common.BoolParameter(False,0)), f"{common.BoolParameter(True)}", hash(common.FloatParameter(2.5))==hash(2.5))
