import io, random, warnings, contextlib, re
warnings.simplefilter("ignore")
import lxml.etree as ET
from space_packet_parser.xtce import definitions as D
rnd = random.Random(3)
base = open("/repo/tests/test_data/test_xtce.xml").read()
URI = "http://www.omg.org/spec/XTCE/20180204"
def render(kind):
    if kind == "xtce": return base, "xtce"
    if kind == "x":
        s = base.replace("xtce:", "x:").replace("xmlns:xtce", "xmlns:x"); return s, "x"
    if kind == "default":
        s = base.replace("xtce:", "").replace("xmlns:xtce", "xmlns"); return s, None
    if kind == "none":
        s = base.replace("xtce:", "")
        s = re.sub(r'\s+xmlns:xtce="[^"]*"', "", s); s = re.sub(r'\s+xmlns:xsi="[^"]*"', "", s); s = re.sub(r'\s+xsi:schemaLocation="[^"]*"', "", s, flags=re.S)
        return s, None
def load(kind, comments=False):
    s, p = render(kind)
    if comments:
        s = re.sub(r"(<(?:\w+:)?(?:EntryList|ParameterSet|ParameterTypeSet|ContainerSet|UnitSet|ComparisonList|RestrictionCriteria|BaseContainer)\b[^>]*[^/]>)", r"\1<!-- c -->\n   ", s)
    return D.XtcePacketDefinition.from_xtce(io.BytesIO(s.encode()), xtce_ns_prefix=p)
def sig(d):
    d2 = D.XtcePacketDefinition(list(d.containers.values()), root_container_name=d.root_container_name, date="X", space_system_name=d.space_system_name)
    return ET.tostring(d2.to_xml_tree())
ref = sig(load("xtce"))
for kind in ("xtce","x","default","none"):
    for c in (False, True):
        try: print(kind, c, sig(load(kind, c)) == ref)
        except Exception as e: print(kind, c, "EXC", type(e).__name__, e)
# history
bad=0
for _ in range(200):
    for _ in range(rnd.randrange(0,5)):
        k = rnd.choice(["xtce","x","default","none","bad","wrongprefix"])
        try:
            if k == "bad": D.XtcePacketDefinition.from_xtce(io.StringIO("<a><b/></a>"))
            elif k == "wrongprefix": D.XtcePacketDefinition.from_xtce(io.BytesIO(render("x")[0].encode()), xtce_ns_prefix="xtce")
            else: load(k)
        except Exception: pass
    k = rnd.choice(["xtce","x","default","none"])
    if sig(load(k)) != ref: bad+=1; print("history bad", k)
print("history bad:", bad)
