import io, warnings, tempfile, os
warnings.simplefilter("ignore")
import numpy as np
from click.testing import CliRunner
from space_packet_parser import packets, common, cli
from space_packet_parser.packets import create_ccsds_packet
def tryit(label, f):
    try:
        print(label, "->", repr(f()))
    except BaseException as e:
        print(label, "-> EXC", type(e).__name__, e)

tryit("np bytes trailing nul", lambda: np.asarray([common.BinaryParameter(b"ab\x00"), common.BinaryParameter(b"\x00\x00")], dtype="bytes").tolist())
tryit("np str trailing nul", lambda: np.asarray([common.StrParameter("ab\x00")], dtype="str").tolist())
tryit("np str of raw bytes", lambda: np.asarray([b"ab"], dtype="str").tolist())
tryit("np str of raw nonascii bytes", lambda: np.asarray([b"\xff"], dtype="str").tolist())
tryit("np uint8 of label", lambda: np.asarray([common.StrParameter("ON", 1)], dtype="uint8").tolist())
tryit("np uint64 max", lambda: np.asarray([common.IntParameter(2**64-1)], dtype="uint64").tolist())
tryit("np int64 of 65-bit", lambda: np.asarray([common.IntParameter(2**64)], dtype="uint64").tolist())
tryit("np float32 of f16 value", lambda: np.asarray([common.FloatParameter(1e-7)], dtype="float64").tolist())

r = CliRunner()
d = tempfile.mkdtemp()
for n in (1,3,7,10,11):
    fn = os.path.join(d, f"p{n}.bin")
    with open(fn,"wb") as f:
        for i in range(n):
            f.write(create_ccsds_packet(b"\x00\x01", apid=100+i, sequence_count=i))
    res = r.invoke(cli.spp, ["describe-packets", fn])
    rows = [l for l in res.output.splitlines() if "│" in l]
    print(n, res.exit_code, len(rows), [l.split("│")[4].strip() for l in rows])
