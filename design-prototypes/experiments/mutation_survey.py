import subprocess, shutil, sys, os, re
ROOT="/tmp/scratch/mut/repo"
MUTS = [
 # (id, file, old, new)
 ("C03-mask", "space_packet_parser/packets.py", "& (2 ** nbits - 1)", "& (2 ** nbits)"),
 ("C03-fastpath", "space_packet_parser/packets.py", "if start_bit_within_byte == 0 and nbits % 8 == 0:\n        # If we're extracting", "if start_bit_within_byte == 0 and nbits % 4 == 0:\n        # If we're extracting"),
 ("C03-readbytes-aligned", "space_packet_parser/packets.py", "if self.pos % 8 == 0 and nbits % 8 == 0:", "if self.pos % 8 == 0 and nbits % 4 == 0:"),
 ("C13-apid-range", "space_packet_parser/packets.py", "apid > 2047:", "apid > 2048:"),
 ("C13-seqcount-range", "space_packet_parser/packets.py", "sequence_count > 16383:", "sequence_count > 16384:"),
 ("C13-len", "space_packet_parser/packets.py", "if len(data) < 1 or len(data) > 65536:", "if len(data) < 1 or len(data) > 65537:"),
 ("C02-trim", "space_packet_parser/packets.py", "read_buffer = read_buffer[current_pos:]", "read_buffer = read_buffer[current_pos + 1:]"),
 ("C02-parsed-skip", "space_packet_parser/packets.py", "n_bytes_parsed += skip_header_bytes + n_bytes_packet", "n_bytes_parsed += n_bytes_packet"),
 ("C02-hdr-refill", "space_packet_parser/packets.py", "while len(read_buffer) - current_pos < skip_header_bytes + RawPacketData.HEADER_LENGTH_BYTES:", "while len(read_buffer) - current_pos < RawPacketData.HEADER_LENGTH_BYTES:"),
 ("C04-twos", "space_packet_parser/xtce/encodings.py", "if (val & (1 << (bit_width - 1))) != 0:", "if (val & (1 << (bit_width - 1))) != 0 and bit_width <= 32:"),
 ("C04-lsb", "space_packet_parser/xtce/encodings.py", "length=(self.size_in_bits + 7) // 8,\n                    byteorder=\"little\"", "length=(self.size_in_bits + 7) // 8,\n                    byteorder=\"little\" if self.size_in_bits <= 32 else \"big\""),
 ("C04-f16", "space_packet_parser/xtce/encodings.py", "self._struct_format += \"e\"", "self._struct_format += \"e\" if self.byte_order != \"leastSignificantByteFirst\" else \"h\""),
 ("C04-mil-exp", "space_packet_parser/xtce/encodings.py", "exponent = self._twos_complement(exponent, 8)", "exponent = self._twos_complement(exponent, 8) if exponent != 128 else 128"),
 ("C06-leq", "space_packet_parser/xtce/comparisons.py", "\"leq\": \"__le__\"", "\"leq\": \"__lt__\""),
 ("C06-or", "space_packet_parser/xtce/comparisons.py", "            for anded in ored.ands:\n                if _and(anded):\n                    return True\n            return False", "            for anded in ored.ands:\n                if not _and(anded):\n                    return False\n            return bool(ored.ands)"),
 ("C08-ctx-order", "space_packet_parser/xtce/encodings.py", "            for calibrator in self.context_calibrators:", "            for calibrator in reversed(self.context_calibrators):"),
 ("C08-spline0", "space_packet_parser/xtce/calibrators.py", "            return y[first_greater - 1]\n        if query_point > max(x) and self.extrapolate:\n            return y[-1]", "            return y[first_greater - 1]\n        if query_point > max(x) and self.extrapolate:\n            return y[-2]"),
 ("C08-bool-raw", "space_packet_parser/xtce/parameter_types.py", "        parsed_value = super().parse_value(packet).raw_value\n        # NOTE: Boolean", "        parsed_value = super().parse_value(packet)\n        # NOTE: Boolean"),
 ("C07-pad", "space_packet_parser/xtce/encodings.py", "packet.raw_data.read_as_int(buflen_bits) << pad_bits", "packet.raw_data.read_as_int(buflen_bits)"),
 ("C07-usecal", "space_packet_parser/xtce/encodings.py", "            if self.use_calibrated_value:\n                len_bits = packet[field_length_reference]\n            else:\n                len_bits = packet[field_length_reference].raw_value", "            len_bits = packet[field_length_reference]"),
 ("C05-ambig", "space_packet_parser/xtce/definitions.py", "if len(valid_inheritors) == 1:", "if len(valid_inheritors) >= 1:"),
 ("C05-abstract", "space_packet_parser/xtce/definitions.py", "                if current_container.abstract:", "                if current_container.abstract and current_container.inheritors:"),
 ("C14-len", "space_packet_parser/xtce/definitions.py", "if packet.raw_data.pos != len(packet.raw_data) * 8:", "if packet.raw_data.pos < len(packet.raw_data) * 8:"),
 ("C12-mod", "space_packet_parser/xtce/definitions.py", "% 16384 == 1", "% 16383 == 1"),
 ("C12-sechdr", "space_packet_parser/xtce/definitions.py", "raw_data += p[raw_packet_data.HEADER_LENGTH_BYTES + secondary_header_bytes:]", "raw_data += p[raw_packet_data.HEADER_LENGTH_BYTES:]"),
 ("C11-return", "space_packet_parser/xtce/definitions.py", "                # Continue to next packet\n                continue", "                # Continue to next packet\n                return"),
 ("C09-extrap", "space_packet_parser/xtce/calibrators.py", "            extrapolate=str(self.extrapolate).lower(),\n", ""),
 ("C09-usecal", "space_packet_parser/xtce/comparisons.py", "            useCalibratedValue=str(self.use_calibrated_value).lower(),\n            comparisonOperator", "            comparisonOperator"),
 ("C09-abstract", "space_packet_parser/xtce/containers.py", "\"abstract\": str(self.abstract).lower(),", "\"abstract\": \"false\","),
 ("C16-nsmap", "space_packet_parser/common.py", "        cls._nsmap = nsmap", "        cls._nsmap = cls._nsmap or nsmap"),
 ("C17-dup-param", "space_packet_parser/xtce/definitions.py", "            if parameter_object.name in parameter_lookup:", "            if False and parameter_object.name in parameter_lookup:"),
 ("C17-inheritors", "space_packet_parser/xtce/definitions.py", "            if sc.base_container_name:\n", "            if sc.base_container_name and not sc.abstract:\n"),
 ("C18-nbits", "space_packet_parser/xarr.py", "if nbits <= 8:", "if nbits < 8:"),
 ("C18-signed", "space_packet_parser/xarr.py", "if data_encoding.encoding == \"unsigned\":", "if data_encoding.encoding in (\"unsigned\", \"signed\"):"),
 ("C19-head", "space_packet_parser/cli.py", "HEAD_ROWS = 5", "HEAD_ROWS = 4"),
 ("C20-raw", "space_packet_parser/common.py", "raw_value if raw_value is not None else value", "raw_value or value"),
]
only = sys.argv[1:]
for mid, f, old, new in MUTS:
    if only and mid not in only: continue
    p = os.path.join(ROOT, f); src = open(p).read()
    if src.count(old) != 1:
        print(f"{mid:24s} PATTERN-COUNT {src.count(old)}"); continue
    open(p, "w").write(src.replace(old, new))
    try:
        r = subprocess.run(["/venv/bin/python","-m","pytest","-q","-x","-p","no:cacheprovider","-p","no:randomly","--timeout=120","-W","ignore::DeprecationWarning"], cwd=ROOT, capture_output=True, text=True, env={**os.environ, "PYTHONPATH": ROOT})
        tail = r.stdout.strip().splitlines()[-1] if r.stdout.strip() else r.stderr.strip().splitlines()[-1]
        print(f"{mid:24s} {'SURVIVES' if r.returncode == 0 else 'killed  '} {tail[:100]}")
    finally:
        open(p, "w").write(src)
