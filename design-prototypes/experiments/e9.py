import io, warnings, dataclasses
warnings.simplefilter("ignore")
import lxml.etree as ET
from space_packet_parser.xtce import definitions as D, containers as SC
p="/repo/tests/test_data/suda/suda_combined_science_definition.xml"
d = D.XtcePacketDefinition.from_xtce(p)
g1 = ET.tostring(d.to_xml_tree(), pretty_print=True)
d2 = D.XtcePacketDefinition.from_xtce(io.BytesIO(g1))
import contextlib
with contextlib.redirect_stdout(io.StringIO()):
  for n,c in d.containers.items():
    c2 = d2.containers[n]
    for f in dataclasses.fields(c):
        a,b = getattr(c,f.name), getattr(c2,f.name)
        try: eq = (a==b)
        except Exception as e: eq = repr(e)
        if eq is not True:
            import sys; print(n, f.name, eq, file=sys.stderr); print(repr(a)[:300], file=sys.stderr); print(repr(b)[:300], file=sys.stderr)
