import io, warnings, itertools, signal
from space_packet_parser import packets
from space_packet_parser.packets import ccsds_generator, create_ccsds_packet, RawPacketData, _extract_bits

def take(gen, n):
    out=[]
    try:
        for i,x in enumerate(gen):
            out.append(bytes(x))
            if i+1>=n: out.append('...MORE'); break
    except BaseException as e:
        out.append(repr(e))
    return out

p1 = create_ccsds_packet(b"\x01\x02\x03", apid=5)
p2 = create_ccsds_packet(b"\x09", apid=6)
s = bytes(p1+p2)
print("full bytes:", take(ccsds_generator(s), 5))
print("empty bytes:", take(ccsds_generator(b""), 5))
print("trunc bytes (mid hdr):", take(ccsds_generator(s[:len(p1)+3]), 5))
print("trunc bytes (mid body):", take(ccsds_generator(s[:len(p1)-1]), 5))
print("empty file:", take(ccsds_generator(io.BytesIO(b"")), 5))
print("trunc file (mid hdr):", take(ccsds_generator(io.BytesIO(s[:len(p1)+3])), 5))
print("trunc file (mid body):", take(ccsds_generator(io.BytesIO(s[:len(p1)-1])), 5))
print("file r=1:", take(ccsds_generator(io.BytesIO(s), buffer_read_size_bytes=1), 5))
# _extract_bits overread
try: print("overread:", _extract_bits(b"\xff", 4, 8))
except Exception as e: print("overread err", repr(e))
print("overread aligned:", _extract_bits(b"\xff", 0, 16))
r = RawPacketData(b"\xab\xcd")
print(r.read_as_int(0), r.pos, r.read_as_bytes(0), r.pos)
r = RawPacketData(b"\xab\xcd"); r.pos=4
print(r.read_as_bytes(8), r.read_as_int(4))
