import io, warnings, traceback
warnings.simplefilter("always")
from space_packet_parser import packets, common
from space_packet_parser.packets import create_ccsds_packet, CCSDSPacket
from space_packet_parser.xtce import comparisons as C, calibrators as K, encodings as E, parameter_types as PT, parameters as P, containers as SC, definitions as D

def tryit(label, f):
    try:
        print(label, "->", repr(f()))
    except BaseException as e:
        print(label, "-> EXC", type(e).__name__, e)

pkt = CCSDSPacket(raw_data=b"\x00"*10)
pkt["Z"] = common.IntParameter(0)
pkt["I"] = common.IntParameter(3)
pkt["F"] = common.FloatParameter(3.5, 7)
pkt["B"] = common.BoolParameter(False, 0)
pkt["S"] = common.StrParameter("", b"")
tryit("cmp Z==0 calibrated", lambda: C.Comparison("0","Z").evaluate(pkt))
tryit("cmp Z==0 raw", lambda: C.Comparison("0","Z",use_calibrated_value=False).evaluate(pkt))
tryit("cmp B==0 calibrated", lambda: C.Comparison("0","B").evaluate(pkt))
tryit("cond I < F", lambda: C.Condition("I","<",right_param="F").evaluate(pkt))
tryit("cond F > I", lambda: C.Condition("F",">",right_param="I").evaluate(pkt))
tryit("cond I == F", lambda: C.Condition("I","==",right_param="F").evaluate(pkt))
tryit("cond Z == 0 value", lambda: C.Condition("Z","==",right_value="0", right_use_calibrated_value=False).evaluate(pkt))
be = C.BooleanExpression(C.Anded([C.Condition("I",">",right_param="F")], []))
tryit("boolexp AND(I>F) (3 > 3.5 false)", lambda: be.evaluate(pkt))
be = C.BooleanExpression(C.Ored([C.Condition("I","<",right_param="F")], []))
tryit("boolexp OR(I<F) (true)", lambda: be.evaluate(pkt))
tryit("cmp int vs '3.0'", lambda: C.Comparison("3.0","I").evaluate(pkt))
tryit("cmp float F >= '3.5'", lambda: C.Comparison("3.5","F",operator=">=").evaluate(pkt))
tryit("cmp F raw == 7", lambda: C.Comparison("7","F",use_calibrated_value=False).evaluate(pkt))

# spline
sp0 = K.SplineCalibrator([K.SplinePoint(0.,10.),K.SplinePoint(1.,20.),K.SplinePoint(2.,40.)], order=0)
sp1 = K.SplineCalibrator([K.SplinePoint(0.,10.),K.SplinePoint(1.,20.),K.SplinePoint(2.,40.)], order=1)
for q in (0,0.5,1,1.5,2):
    tryit(f"spline0({q})", lambda: sp0.calibrate(q))
    tryit(f"spline1({q})", lambda: sp1.calibrate(q))
tryit("spline0(3) noextrap", lambda: sp0.calibrate(3))
sp1e = K.SplineCalibrator([K.SplinePoint(0.,10.),K.SplinePoint(1.,20.),K.SplinePoint(2.,40.)], order=1, extrapolate=True)
tryit("spline1e(3)", lambda: sp1e.calibrate(3))
tryit("spline1e(-1)", lambda: sp1e.calibrate(-1))
tryit("spline1e(2)", lambda: sp1e.calibrate(2))
tryit("poly empty", lambda: K.PolynomialCalibrator([]).calibrate(3))
tryit("poly", lambda: K.PolynomialCalibrator([K.PolynomialCoefficient(2.0,2),K.PolynomialCoefficient(1.0,0)]).calibrate(3))
