import io, warnings, traceback
warnings.simplefilter("always")
import lxml.etree as ET
from space_packet_parser import packets, common
from space_packet_parser.packets import create_ccsds_packet, CCSDSPacket
from space_packet_parser.xtce import comparisons as C, calibrators as K, encodings as E, parameter_types as PT, parameters as P, containers as SC, definitions as D

def tryit(label, f):
    try:
        print(label, "->", repr(f()))
    except BaseException as e:
        print(label, "-> EXC", type(e).__name__, e)

# binary with discrete lookup
pkt = CCSDSPacket(raw_data=b"\x01\x02\x03\x04\x05\x06\x07\x08")
pkt["L"] = common.IntParameter(2)
dl = [C.DiscreteLookup([C.Comparison("2","L")], 16)]
be = E.BinaryDataEncoding(size_discrete_lookup_list=dl)
tryit("binary discrete int lookup", lambda: (be.parse_value(pkt), pkt.raw_data.pos))
dlf = [C.DiscreteLookup([C.Comparison("2","L")], 16.0)]
be = E.BinaryDataEncoding(size_discrete_lookup_list=dlf)
pkt.raw_data.pos=0
tryit("binary discrete float lookup (as from_xml)", lambda: (be.parse_value(pkt), pkt.raw_data.pos))
# binary with calibrated float ref
pkt["LF"] = common.FloatParameter(16.0, 2)
be = E.BinaryDataEncoding(size_reference_parameter="LF")
pkt.raw_data.pos=0
tryit("binary ref float calibrated", lambda: (be.parse_value(pkt), pkt.raw_data.pos))
# negative length
pkt["NEG"] = common.IntParameter(-8)
be = E.BinaryDataEncoding(size_reference_parameter="NEG")
pkt.raw_data.pos=16
tryit("binary negative len", lambda: (be.parse_value(pkt), pkt.raw_data.pos))
se = E.StringDataEncoding(dynamic_length_reference="NEG")
pkt.raw_data.pos=16
tryit("string negative len", lambda: (se.parse_value(pkt), pkt.raw_data.pos))
# binary over-read
be = E.BinaryDataEncoding(fixed_size_in_bits=128)
pkt.raw_data.pos=0
tryit("binary overread", lambda: (be.parse_value(pkt), pkt.raw_data.pos))
ie = E.IntegerDataEncoding(32,"unsigned")
pkt.raw_data.pos=48
tryit("int overread aligned", lambda: (ie.parse_value(pkt), pkt.raw_data.pos))
pkt.raw_data.pos=52
tryit("int overread unaligned", lambda: (ie.parse_value(pkt), pkt.raw_data.pos))
se = E.StringDataEncoding(fixed_raw_length=128)
pkt.raw_data.pos=0
tryit("string overread", lambda: (se.parse_value(pkt), pkt.raw_data.pos))
fe = E.FloatDataEncoding(32)
pkt.raw_data.pos=48
tryit("float overread", lambda: (fe.parse_value(pkt), pkt.raw_data.pos))
# string non-byte length
pkt2 = CCSDSPacket(raw_data=b"\x41\x42\x43\x44")
se = E.StringDataEncoding(fixed_raw_length=12)
tryit("string 12 bits", lambda: (se.parse_value(pkt2), se and pkt2.raw_data.pos))
# utf-16 with byteorder
tryit("utf16 BE byteorder obj", lambda: E.StringDataEncoding(encoding="UTF-16", byte_order="mostSignificantByteFirst", fixed_raw_length=32).__dict__)
se = E.StringDataEncoding(encoding="UTF-16", byte_order="mostSignificantByteFirst", fixed_raw_length=32)
pkt3 = CCSDSPacket(raw_data=b"\x00\x41\x00\x42")
tryit("utf16 MSB decode of 0041 0042", lambda: se.parse_value(pkt3))
em = __import__("lxml.builder").builder.ElementMaker()
tryit("utf16 to_xml", lambda: ET.tostring(se.to_xml(elmaker=em)))
# string lookup zero
# termination char
se = E.StringDataEncoding(fixed_raw_length=32, termination_character="00")
pkt4 = CCSDSPacket(raw_data=b"\x41\x00\x43\x00")
tryit("term char", lambda: (se.parse_value(pkt4), se.parse_value and pkt4.raw_data.pos))
se = E.StringDataEncoding(fixed_raw_length=32, leading_length_size=8)
pkt5 = CCSDSPacket(raw_data=b"\x10\x41\x42\x43")
tryit("leading size", lambda: (se.parse_value(pkt5), pkt5.raw_data.pos, se.parse_value.__self__ is se))
pkt5 = CCSDSPacket(raw_data=b"\x28\x41\x42\x43")
tryit("leading size too large", lambda: (se.parse_value(pkt5), pkt5.raw_data.pos))
