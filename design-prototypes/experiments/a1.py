import io, random, struct, warnings, math, socket
warnings.simplefilter("ignore")
from space_packet_parser import packets, common
from space_packet_parser.packets import RawPacketData, create_ccsds_packet, ccsds_generator, CCSDSPacket
from space_packet_parser.xtce import encodings as E
rnd = random.Random(1)
# C03
bad = 0
for _ in range(20000):
    L = rnd.randrange(0, 12); B = bytes(rnd.randrange(256) for _ in range(L))
    p = rnd.randrange(0, 8*L+1); n = rnd.randrange(0, 8*L - p + 1)
    bits = "".join(f"{b:08b}" for b in B)
    exp = int(bits[p:p+n] or "0", 2)
    r = RawPacketData(B); r.pos = p
    v = r.read_as_int(n)
    r2 = RawPacketData(B); r2.pos = p
    bb = r2.read_as_bytes(n)
    if not (v == exp and r.pos == p+n and bb == exp.to_bytes((n+7)//8, "big") and r2.pos == p+n and bytes(r) == B):
        bad += 1; print("C03 bad", B.hex(), p, n, v, exp, bb)
print("C03 bad:", bad)
# C13
bad = 0
for _ in range(5000):
    f = dict(version_number=rnd.choice([0,7,rnd.randrange(8)]), type=rnd.randrange(2), secondary_header_flag=rnd.randrange(2),
             apid=rnd.choice([0,2047,rnd.randrange(2048)]), sequence_flags=rnd.randrange(4), sequence_count=rnd.choice([0,16383,rnd.randrange(16384)]))
    d = bytes(rnd.randrange(256) for _ in range(rnd.choice([1,2,7,300])))
    pk = create_ccsds_packet(d, **f)
    hv = pk.header_values
    exp = (f["version_number"], f["type"], f["secondary_header_flag"], f["apid"], f["sequence_flags"], f["sequence_count"], len(d)-1)
    bits = f"{exp[0]:03b}{exp[1]:01b}{exp[2]:01b}{exp[3]:011b}{exp[4]:02b}{exp[5]:014b}{exp[6]:016b}"
    if hv != exp or bytes(pk) != int(bits,2).to_bytes(6,"big")+d or [bytes(x) for x in ccsds_generator(bytes(pk))] != [bytes(pk)]:
        bad += 1; print("C13 bad", f, hv)
for kw, vals in dict(version_number=[-1,8], type=[-1,2], secondary_header_flag=[-1,2], apid=[-1,2048], sequence_flags=[-1,4], sequence_count=[-1,16384]).items():
    for v in vals:
        try: create_ccsds_packet(b"\0", **{kw: v}); print("C13 not rejected", kw, v)
        except ValueError: pass
for d in (b"", b"\0"*65537):
    try: create_ccsds_packet(d); print("C13 len not rejected", len(d))
    except ValueError: pass
print("C13 bad:", bad, "max len ok:", len(create_ccsds_packet(b"\0"*65536)))
# C04 ints
bad = 0
for _ in range(20000):
    n = rnd.choice([1,2,3,7,8,9,15,16,17,24,31,32,33,63,64,65,72,128])
    off = rnd.randrange(8)
    L = (off + n + 7)//8 + rnd.randrange(2)
    B = bytes(rnd.choice([0,255,rnd.randrange(256)]) for _ in range(L))
    enc = rnd.choice(["unsigned","signed","twosComplement"]); bo = rnd.choice(["mostSignificantByteFirst","leastSignificantByteFirst"])
    if bo.startswith("least") and n % 8: continue
    bits = "".join(f"{b:08b}" for b in B)[off:off+n]
    raw = int(bits, 2)
    if bo.startswith("least"): raw = int.from_bytes(raw.to_bytes(n//8,"big"), "little")
    exp = raw if enc == "unsigned" else (raw - (1<<n) if raw >> (n-1) else raw)
    pkt = CCSDSPacket(raw_data=B); pkt.raw_data.pos = off
    v = E.IntegerDataEncoding(n, enc, byte_order=bo).parse_value(pkt)
    if not (v == exp and type(v) is common.IntParameter and v.raw_value == exp and pkt.raw_data.pos == off+n):
        bad += 1; print("C04 int bad", n, off, enc, bo, B.hex(), v, exp)
print("C04 int bad:", bad)
# C04 floats
bad = 0
def ref(w, b):  # independent IEEE decode from bits
    eb, mb = {16:(5,10),32:(8,23),64:(11,52)}[w]
    x = int.from_bytes(b, "big"); s = x >> (w-1); e = (x >> mb) & ((1<<eb)-1); m = x & ((1<<mb)-1); bias = (1<<(eb-1))-1
    if e == (1<<eb)-1: return float("nan") if m else (float("-inf") if s else float("inf"))
    v = math.ldexp(m, 1-bias-mb) if e == 0 else math.ldexp((1<<mb)|m, e-bias-mb)
    return -v if s else v
for _ in range(20000):
    w = rnd.choice([16,32,64]); off = rnd.randrange(8); bo = rnd.choice(["mostSignificantByteFirst","leastSignificantByteFirst"])
    fb = bytes(rnd.choice([0,255,0x7f,0x80,0x7c,0xfc,1,rnd.randrange(256)]) for _ in range(w//8))
    wire = fb if bo.startswith("most") else fb[::-1]
    allbits = "0"*off + "".join(f"{b:08b}" for b in wire) + "0"*8
    B = int(allbits,2).to_bytes(len(allbits)//8 + (1 if len(allbits)%8 else 0), "big") if len(allbits)%8==0 else int(allbits + "0"*(8-len(allbits)%8),2).to_bytes((len(allbits)+7)//8,"big")
    pkt = CCSDSPacket(raw_data=B); pkt.raw_data.pos = off
    v = E.FloatDataEncoding(w, byte_order=bo).parse_value(pkt)
    e = ref(w, fb)
    same = (math.isnan(v) and math.isnan(e)) or (struct.pack(">d", v) == struct.pack(">d", e))
    if not (same and type(v) is common.FloatParameter and pkt.raw_data.pos == off + w):
        bad += 1; print("C04 float bad", w, off, bo, fb.hex(), v, e)
print("C04 float bad:", bad)
