import io, warnings, socket, threading
warnings.simplefilter("ignore")
from space_packet_parser.packets import create_ccsds_packet, ccsds_generator
from space_packet_parser.xtce import definitions as D, containers as SC, parameters as P, parameter_types as PT, encodings as E, comparisons as C
def tryit(label, f):
    try: print(label, "->", repr(f()))
    except BaseException as e: print(label, "-> EXC", type(e).__name__, e)
u = lambda n: PT.IntegerParameterType(f"U{n}", E.IntegerDataEncoding(n, "unsigned"))
hdr = [P.Parameter(nm, u(n)) for nm, n in [("VER",3),("TYP",1),("SHF",1),("APID",11),("SF",2),("SC",14),("LEN",16)]]
root = SC.SequenceContainer("CCSDSPacket", hdr, abstract=True, inheritors=["A"])
a = SC.SequenceContainer("A", [P.Parameter("X", u(8))], base_container_name="CCSDSPacket", restriction_criteria=[C.Comparison("5","APID")])
d = D.XtcePacketDefinition([root, a])
s = create_ccsds_packet(b"\x07", apid=5) + create_ccsds_packet(b"\x07", apid=6)
tryit("abstract no-match w/o PKT_APID name", lambda: [dict(x) if not isinstance(x, Exception) else ("ERR", dict(x.partial_data)) for x in d.packet_generator(bytes(s), yield_unrecognized_packet_errors=True)])
# socket closed by peer
a_, b_ = socket.socketpair()
a_.sendall(bytes(s)); a_.close()
g = ccsds_generator(b_)
out=[]
for i,x in enumerate(g):
    out.append(bytes(x))
    if i>5: out.append("..."); break
print("socket closed:", out)
