import io, warnings, glob
warnings.simplefilter("ignore")
import lxml.etree as ET
from space_packet_parser.xtce import definitions as D
docs = ["/repo/tests/test_data/test_xtce.xml","/repo/tests/test_data/jpss/jpss1_geolocation_xtce_v1.xml","/repo/tests/test_data/jpss/contrived_inheritance_structure.xml",
 "/repo/tests/test_data/ctim/ctim_xtce_v1.xml","/repo/tests/test_data/suda/suda_combined_science_definition.xml","/repo/tests/test_data/idex/idex_combined_science_definition.xml"]
for p in docs:
    try:
        d = D.XtcePacketDefinition.from_xtce(p)
        g1 = ET.tostring(d.to_xml_tree(), pretty_print=True)
        g1b = ET.tostring(d.to_xml_tree(), pretty_print=True)
        d2 = D.XtcePacketDefinition.from_xtce(io.BytesIO(g1))
        g2 = ET.tostring(d2.to_xml_tree(), pretty_print=True)
        d3 = D.XtcePacketDefinition.from_xtce(io.BytesIO(g2))
        g3 = ET.tostring(d3.to_xml_tree(), pretty_print=True)
        print(p.split("/")[-1], "W==W", g1==g1b, "G1==G2", g1==g2, "G2==G3", g2==g3, len(g1), "eq", d==d2)
        if g1!=g2:
            import difflib
            for l in list(difflib.unified_diff(g1.decode().splitlines(), g2.decode().splitlines(), lineterm="", n=0))[:12]: print("   ", l)
    except Exception as e:
        import traceback; traceback.print_exc(limit=3)
        print(p, "EXC", type(e).__name__, e)
