import io, random, struct, warnings, math, socket, types
warnings.simplefilter("ignore")
from fractions import Fraction
from space_packet_parser import packets, common
from space_packet_parser.packets import RawPacketData, create_ccsds_packet, ccsds_generator, CCSDSPacket
from space_packet_parser.xtce import encodings as E
rnd = random.Random(2)
# MIL-1750A
bad=0
for _ in range(20000):
    bo = rnd.choice(["mostSignificantByteFirst","leastSignificantByteFirst"]); off = rnd.randrange(8)
    fb = bytes(rnd.choice([0,255,0x7f,0x80,1,rnd.randrange(256)]) for _ in range(4))
    x = int.from_bytes(fb,"big"); e = x & 0xff; m = x >> 8
    e = e-256 if e>=128 else e; m = m-(1<<24) if m>=(1<<23) else m
    exp = Fraction(m) * Fraction(2)**(e-23)
    wire = fb if bo.startswith("most") else fb[::-1]
    allbits = "1"*off + "".join(f"{b:08b}" for b in wire) + "1"*(8-off if off else 0)
    B = int(allbits,2).to_bytes(len(allbits)//8,"big")
    pkt = CCSDSPacket(raw_data=B); pkt.raw_data.pos = off
    v = E.FloatDataEncoding(32, encoding="MILSTD_1750A", byte_order=bo).parse_value(pkt)
    if Fraction(v) != exp or pkt.raw_data.pos != off+32: bad+=1; print("mil bad", fb.hex(), bo, off, v, float(exp))
print("MIL bad:", bad)
# C02
f = packets.ccsds_generator
consts = tuple(40 if c == 20_000_000 else c for c in f.__code__.co_consts)
g40 = types.FunctionType(f.__code__.replace(co_consts=consts), f.__globals__, f.__name__, f.__defaults__, f.__closure__); g40.__kwdefaults__ = f.__kwdefaults__
class Scripted(socket.socket):
    def __init__(self, chunks):
        super().__init__(socket.AF_INET, socket.SOCK_STREAM); self._chunks = list(chunks)
    def recv(self, n, *a):
        if not self._chunks: raise RuntimeError("would block")
        c = self._chunks.pop(0); assert 0 < len(c) <= n; return c
class ShortReadBytesIO(io.BytesIO):
    def __init__(self, b, rnd): super().__init__(b); self._r = rnd
    def read(self, n=-1):
        if n is None or n < 0: return super().read(n)
        return super().read(self._r.randrange(1, n+1))
bad=0; cases=0
for _ in range(3000):
    k = rnd.choice([0,0,1,4,9]); npk = rnd.randrange(0, 8)
    pks = [bytes(create_ccsds_packet(bytes(rnd.randrange(256) for _ in range(rnd.choice([1,1,2,5,6,7,30]))), apid=rnd.randrange(2048), sequence_count=rnd.randrange(16384), sequence_flags=rnd.randrange(4), version_number=rnd.randrange(8))) for _ in range(npk)]
    S = b"".join(bytes(rnd.randrange(256) for _ in range(k)) + p for p in pks)
    for gen in (f, g40):
        # bytes
        if npk:
            out = [bytes(x) for x in gen(S, skip_header_bytes=k)]
            if out != pks: bad+=1; print("bytes bad", k, npk)
            for r in (None, 1, 2, 5, 6, 7, 13, 4096):
                out = [bytes(x) for x in gen(io.BytesIO(S), skip_header_bytes=k, buffer_read_size_bytes=r)]
                if out != pks: bad+=1; print("file bad", k, npk, r)
            r = rnd.choice([1,3,7,64])
            out = [bytes(x) for x in gen(ShortReadBytesIO(S, rnd), skip_header_bytes=k, buffer_read_size_bytes=r)]
            if out != pks: bad+=1; print("shortread bad", k, npk, r)
        # socket: random fragmentation
        cuts = sorted(rnd.sample(range(1, len(S)), min(len(S)-1, rnd.randrange(0, 10)))) if len(S) > 1 else []
        chunks = [S[a:b] for a,b in zip([0]+cuts, cuts+[len(S)]) if b>a]
        sk = Scripted(chunks); it = gen(sk, skip_header_bytes=k, buffer_read_size_bytes=max(1,len(S)))
        out = [bytes(next(it)) for _ in range(npk)]; sk.close()
        if out != pks: bad+=1; print("socket bad", k, npk)
        cases+=1
print("C02 bad:", bad, "cases", cases)
