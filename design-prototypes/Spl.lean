import Mathlib.Tactic.Linarith
import Mathlib.Tactic.FieldSimp
import Mathlib.Tactic.Ring
import Mathlib.Algebra.Order.Field.Rat

/-- `linear_func` of calibrators.py:208-225 over exact rationals -/
def linearFunc (xq x0 x1 y0 y1 : Rat) : Rat := ((y1 - y0) / (x1 - x0)) * (xq - x0) + y0

theorem linearFunc_left (x0 x1 y0 y1 : Rat) : linearFunc x0 x0 x1 y0 y1 = y0 := by
  simp [linearFunc]

theorem linearFunc_right (x0 x1 y0 y1 : Rat) (h : x0 < x1) : linearFunc x1 x0 x1 y0 y1 = y1 := by
  have hne : x1 - x0 ≠ 0 := ne_of_gt (sub_pos.mpr h)
  unfold linearFunc
  field_simp
  ring

theorem linearFunc_between (xq x0 x1 y0 y1 : Rat) (h : x0 < x1) (hq0 : x0 ≤ xq) (hq1 : xq ≤ x1) (hy : y0 ≤ y1) :
    y0 ≤ linearFunc xq x0 x1 y0 y1 := by
  unfold linearFunc
  have h1 : 0 ≤ (y1 - y0) / (x1 - x0) := div_nonneg (by linarith) (by linarith)
  have h2 : 0 ≤ xq - x0 := by linarith
  nlinarith [mul_nonneg h1 h2]

#print axioms linearFunc_right
