/-! C09 prototype: abstract XML tree, a writer/reader pair, and their round trip -/

inductive XmlNode
  | elem (tag : String) (attrs : List (String × String)) (text : Option String) (children : List XmlNode)
  | comment (s : String)
deriving Repr

namespace XmlNode
def tag? : XmlNode → Option String
  | elem t _ _ _ => some t
  | comment _ => none
def attrs : XmlNode → List (String × String)
  | elem _ a _ _ => a
  | comment _ => []
def children : XmlNode → List XmlNode
  | elem _ _ _ c => c
  | comment _ => []
def attr (n : XmlNode) (k : String) : Option String := (n.attrs.find? (·.1 == k)).map (·.2)
/-- `iterfind('*')` : element children only (comments skipped) -/
def elems (n : XmlNode) : List XmlNode := n.children.filter (fun c => c.tag?.isSome)
/-- `findall(tag)` -/
def findall (n : XmlNode) (t : String) : List XmlNode := n.children.filter (fun c => c.tag? == some t)
def find (n : XmlNode) (t : String) : Option XmlNode := (n.findall t).head?
end XmlNode

structure Coeff where
  coefficient : Int   -- stands for a float; printing/parsing is abstract below
  exponent : Int
deriving DecidableEq, Repr

structure Poly where
  coeffs : List Coeff
deriving DecidableEq, Repr

/-- number printing / parsing supplied by the host language; assumed to round-trip -/
structure NumIO where
  showI : Int → String
  readI : String → Option Int
  rt : ∀ i, readI (showI i) = some i

variable (io : NumIO)

def Coeff.toXml (c : Coeff) : XmlNode :=
  .elem "Term" [("exponent", io.showI c.exponent), ("coefficient", io.showI c.coefficient)] none []

def Poly.toXml (p : Poly) : XmlNode :=
  .elem "PolynomialCalibrator" [] none (p.coeffs.map (Coeff.toXml io))

def Coeff.fromXml (n : XmlNode) : Option Coeff := do
  let c ← (n.attr "coefficient").bind io.readI
  let e ← (n.attr "exponent").bind io.readI
  pure ⟨c, e⟩

def Poly.fromXml (n : XmlNode) : Option Poly := do
  let cs ← n.elems.mapM (Coeff.fromXml io)
  pure ⟨cs⟩

theorem Coeff.roundtrip (c : Coeff) : Coeff.fromXml io (Coeff.toXml io c) = some c := by
  simp [Coeff.fromXml, Coeff.toXml, XmlNode.attr, XmlNode.attrs, io.rt]

theorem elems_map_toXml (cs : List Coeff) :
    (XmlNode.elem "PolynomialCalibrator" [] none (cs.map (Coeff.toXml io))).elems = cs.map (Coeff.toXml io) := by
  simp [XmlNode.elems, XmlNode.children, List.filter_eq_self, Coeff.toXml, XmlNode.tag?]

theorem Poly.roundtrip (p : Poly) : Poly.fromXml io (Poly.toXml io p) = some p := by
  cases p with | mk cs =>
  simp only [Poly.fromXml, Poly.toXml, elems_map_toXml]
  have : (cs.map (Coeff.toXml io)).mapM (Coeff.fromXml io) = some cs := by
    induction cs with
    | nil => rfl
    | cons c cs ih => simp [List.mapM_cons, Coeff.roundtrip, ih]
  simp [this]

/-- comments between elements do not change what is read (C16 shape) -/
theorem Poly.comments (attrs : List (String × String)) (t : Option String) (pre post : List XmlNode) (s : String) :
    Poly.fromXml io (.elem "PolynomialCalibrator" attrs t (pre ++ [.comment s] ++ post))
      = Poly.fromXml io (.elem "PolynomialCalibrator" attrs t (pre ++ post)) := by
  simp [Poly.fromXml, XmlNode.elems, XmlNode.children, List.filter_append, XmlNode.tag?]

#print axioms Poly.roundtrip
#print axioms Poly.comments
