abbrev Bytes := List UInt8

def fromBytesBE (bs : Bytes) : Nat := bs.foldl (fun acc b => acc * 256 + b.toNat) 0

inductive Err | negativeShift | endOfPacket
deriving Repr, DecidableEq

def extractBits (data : Bytes) (startBit nbits : Nat) : Except Err Nat :=
  let startByte := startBit / 8
  let sbwb := startBit % 8
  let endByte := startByte + (sbwb + nbits + 7) / 8
  let d := (data.drop startByte).take (endByte - startByte)
  let value := fromBytesBE d
  if sbwb = 0 ∧ nbits % 8 = 0 then .ok value
  else if d.length * 8 < sbwb + nbits then .error .negativeShift
  else .ok ((value >>> (d.length * 8 - sbwb - nbits)) % 2^nbits)

/-- spec: big-endian value of bits p..p+n-1 -/
def bitsSpec (data : Bytes) (p n : Nat) : Nat :=
  fromBytesBE data / 2^(8 * data.length - p - n) % 2^n

theorem fromBytesBE_foldl (bs : Bytes) (a : Nat) :
    bs.foldl (fun acc b => acc * 256 + b.toNat) a = a * 256^bs.length + fromBytesBE bs := by
  induction bs generalizing a with
  | nil => simp [fromBytesBE]
  | cons b bs ih =>
    simp only [List.foldl_cons, List.length_cons, fromBytesBE]
    rw [ih, ih (0*256 + b.toNat)]
    simp [Nat.pow_succ, Nat.add_mul, Nat.mul_assoc, Nat.add_assoc, Nat.mul_comm 256]

theorem fromBytesBE_append (xs ys : Bytes) :
    fromBytesBE (xs ++ ys) = fromBytesBE xs * 256^ys.length + fromBytesBE ys := by
  simp [fromBytesBE, List.foldl_append]
  exact fromBytesBE_foldl ys _

theorem fromBytesBE_cons (b : UInt8) (bs : Bytes) :
    fromBytesBE (b :: bs) = b.toNat * 256^bs.length + fromBytesBE bs := by
  have := fromBytesBE_append [b] bs
  simpa [fromBytesBE] using this

theorem fromBytesBE_lt (bs : Bytes) : fromBytesBE bs < 256^bs.length := by
  induction bs with
  | nil => simp [fromBytesBE]
  | cons b bs ih =>
    rw [fromBytesBE_cons]
    simp only [List.length_cons, Nat.pow_succ]
    have hb := b.toNat_lt
    have : b.toNat * 256 ^ bs.length ≤ 255 * 256 ^ bs.length := Nat.mul_le_mul_right _ (by omega)
    omega

theorem two_pow_8 (k : Nat) : (256:Nat)^k = 2^(8*k) := by
  rw [Nat.pow_mul]

theorem window_arith (P D Q a b off n : Nat) (hD : D < 2^(8*a)) (hQ : Q < 2^(8*b))
    (h : off + n ≤ 8*a) :
    ((P * 2^(8*a) + D) * 2^(8*b) + Q) / 2^(8*b + (8*a - off - n)) % 2^n
      = D / 2^(8*a - off - n) % 2^n := by
  have hpos : ∀ k, 0 < 2^k := fun k => Nat.two_pow_pos k
  rw [Nat.pow_add, ← Nat.div_div_eq_div_mul]
  have h1 : ((P * 2^(8*a) + D) * 2^(8*b) + Q) / 2^(8*b) = P * 2^(8*a) + D := by
    rw [Nat.mul_comm _ (2^(8*b)), Nat.mul_add_div (hpos _), Nat.div_eq_of_lt hQ, Nat.add_zero]
  rw [h1]
  have h2 : 2^(8*a) = 2^(off + n) * 2^(8*a - off - n) := by
    rw [← Nat.pow_add]; congr 1; omega
  rw [h2, ← Nat.mul_assoc, Nat.mul_comm _ (2^(8*a-off-n)), Nat.mul_add_div (hpos _)]
  rw [Nat.pow_add, ← Nat.mul_assoc, Nat.add_comm, Nat.add_mul_mod_self_right]
