import Proto.Bits

structure Cfg where
  skip : Nat
  trim : Nat

def sumLen : List Bytes → Nat
  | [] => 0
  | c :: cs => c.length + sumLen cs

/-- `while len(buf) - pos < need: r = read(); if not r: break; buf += r` -/
def refill (need pos : Nat) : Bytes → List Bytes → Bytes × List Bytes
  | buf, [] => (buf, [])
  | buf, c :: cs =>
    if buf.length - pos < need then
      if c.isEmpty then (buf, cs) else refill need pos (buf ++ c) cs
    else (buf, c :: cs)

theorem refill_len (need pos : Nat) (buf : Bytes) (src : List Bytes) :
    (refill need pos buf src).1.length + sumLen (refill need pos buf src).2 = buf.length + sumLen src := by
  induction src generalizing buf with
  | nil => simp [refill]
  | cons c cs ih =>
    unfold refill
    split
    · split
      · rename_i h; simp [sumLen, List.isEmpty_iff.mp h]
      · rw [ih]; simp [sumLen]; omega
    · rfl

theorem refill_mono (need pos : Nat) (buf : Bytes) (src : List Bytes) :
    buf.length ≤ (refill need pos buf src).1.length := by
  induction src generalizing buf with
  | nil => simp [refill]
  | cons c cs ih =>
    unfold refill
    split
    · split
      · exact Nat.le_refl _
      · exact Nat.le_trans (by simp) (ih (buf ++ c))
    · exact Nat.le_refl _

def be16 (bs : Bytes) : Nat := fromBytesBE ((bs.drop 4).take 2)

structure St where
  buf : Bytes
  pos : Nat
  src : List Bytes
  parsed : Nat
  total : Option Nat

def St.mu (s : St) : Nat := s.buf.length - s.pos + sumLen s.src

def trimBuf (cfg : Cfg) (buf : Bytes) (pos : Nat) : Bytes × Nat :=
  if pos > cfg.trim then (buf.drop pos, 0) else (buf, pos)

theorem trimBuf_len (cfg : Cfg) (buf : Bytes) (pos : Nat) :
    (trimBuf cfg buf pos).1.length - (trimBuf cfg buf pos).2 = buf.length - pos := by
  unfold trimBuf; split <;> simp

def stopNow (st : St) : Bool :=
  match st.total with | some t => t != 0 && st.parsed == t | none => false

/-- body of one loop iteration after the optional trim -/
def stepBody (skip : Nat) (buf0 : Bytes) (pos0 : Nat) (src : List Bytes) (parsed : Nat) (total : Option Nat) :
    Option (Bytes × St) :=
  let r1 := refill (skip + 6) pos0 buf0 src
  if r1.1.length - pos0 < skip + 6 then none
  else
    let pos1 := pos0 + skip
    let n := 6 + (be16 ((r1.1.drop pos1).take 6) + 1)
    let r2 := refill n pos1 r1.1 r1.2
    if r2.1.length - pos1 < n then none
    else
      some ((r2.1.drop pos1).take n,
            { buf := r2.1, pos := pos1 + n, src := r2.2, parsed := parsed + skip + n, total := total })

/-- one iteration of the (repaired) packet loop of `ccsds_generator` -/
def step (cfg : Cfg) (st : St) : Option (Bytes × St) :=
  if stopNow st then none
  else stepBody cfg.skip (trimBuf cfg st.buf st.pos).1 (trimBuf cfg st.buf st.pos).2 st.src st.parsed st.total

theorem stepBody_mu {skip pos0 parsed : Nat} {buf0 : Bytes} {src : List Bytes} {total : Option Nat}
    {st' : St} {pkt : Bytes} (h : stepBody skip buf0 pos0 src parsed total = some (pkt, st')) :
    st'.mu < buf0.length - pos0 + sumLen src := by
  unfold stepBody at h
  simp only at h
  split at h
  · contradiction
  · split at h
    · contradiction
    · rename_i h1 h2
      injection h with h
      injection h with _ h
      subst h
      simp only [St.mu]
      have e1 := refill_len (skip + 6) pos0 buf0 src
      generalize refill (skip + 6) pos0 buf0 src = r1 at *
      have hn7 : 7 ≤ 6 + (be16 ((r1.1.drop (pos0 + skip)).take 6) + 1) := by omega
      generalize 6 + (be16 ((r1.1.drop (pos0 + skip)).take 6) + 1) = n at *
      have e2 := refill_len n (pos0 + skip) r1.1 r1.2
      generalize refill n (pos0 + skip) r1.1 r1.2 = r2 at *
      omega

theorem step_mu {cfg : Cfg} {st st' : St} {pkt : Bytes} (h : step cfg st = some (pkt, st')) :
    st'.mu < st.mu := by
  unfold step at h
  split at h
  · contradiction
  · have := stepBody_mu h
    rw [trimBuf_len] at this
    exact this

def frame (cfg : Cfg) (st : St) : List Bytes :=
  match h : step cfg st with
  | none => []
  | some (pkt, st') => pkt :: frame cfg st'
termination_by st.mu
decreasing_by exact step_mu h
