structure Cond where
  l : Nat
  r : Nat
deriving Repr

mutual
inductive Anded
  | mk (conds : List Cond) (ors : List Ored)
inductive Ored
  | mk (conds : List Cond) (ands : List Anded)
end

def Cond.eval (c : Cond) : Bool := c.l < c.r

mutual
def evalAnd : Anded → Bool
  | .mk cs ors => cs.all Cond.eval && evalOrs ors
def evalOrs : List Ored → Bool
  | [] => true
  | o :: os => evalOr o && evalOrs os
def evalOr : Ored → Bool
  | .mk cs ands => cs.any Cond.eval || evalAnds ands
def evalAnds : List Anded → Bool
  | [] => false
  | a :: as => evalAnd a || evalAnds as
end

inductive Entry
  | param (name : String) (width : Nat)
  | cont (name : String) (entries : List Entry)

mutual
def widthE : Entry → Nat
  | .param _ w => w
  | .cont _ es => widthEs es
def widthEs : List Entry → Nat
  | [] => 0
  | e :: es => widthE e + widthEs es
end

mutual
def flatE : Entry → List (String × Nat)
  | .param n w => [(n, w)]
  | .cont _ es => flatEs es
def flatEs : List Entry → List (String × Nat)
  | [] => []
  | e :: es => flatE e ++ flatEs es
end

mutual
theorem width_flatE (e : Entry) : widthE e = ((flatE e).map (·.2)).sum := by
  cases e with
  | param n w => simp [widthE, flatE]
  | cont n es => simp [widthE, flatE, width_flatEs es]
theorem width_flatEs (es : List Entry) : widthEs es = ((flatEs es).map (·.2)).sum := by
  cases es with
  | nil => simp [widthEs, flatEs]
  | cons e es => simp [widthEs, flatEs, width_flatE e, width_flatEs es]
end
#print axioms width_flatE
