/-! C05 prototype: fuelled descend loop of `parse_ccsds_packet` vs. a relational big-step specification -/

abbrev Name := String
abbrev Pkt := List (Name × Nat)          -- stand-in for the partially filled packet

inductive Err | unrecognized (partialData : Pkt) | diverged | other
deriving DecidableEq, Repr

structure Cont where
  name : Name
  abstract : Bool
  inheritors : List Name
deriving Repr

/-- everything the loop consults, abstractly -/
structure World where
  lookup : Name → Option Cont
  parseEntries : Cont → Pkt → Except Err Pkt
  holds : Cont → Pkt → Except Err Bool          -- all(rc.evaluate(packet) for rc in child.restriction_criteria)

variable (W : World)

/-- `[n for n in inheritors if all(criteria of n hold)]`, exceptions propagate in order -/
def validChildren (pkt : Pkt) : List Name → Except Err (List Name)
  | [] => .ok []
  | n :: ns =>
    match W.lookup n with
    | none => .error .other                       -- KeyError
    | some ch =>
      match W.holds ch pkt with
      | .error e => .error e
      | .ok b =>
        match validChildren pkt ns with
        | .error e => .error e
        | .ok vs => .ok (if b then n :: vs else vs)

/-- the `while True` loop with fuel -/
def descend : Nat → Cont → Pkt → Except Err Pkt
  | 0, _, _ => .error .diverged
  | fuel + 1, c, pkt =>
    match W.parseEntries c pkt with
    | .error e => .error e
    | .ok pkt' =>
      match validChildren W pkt' c.inheritors with
      | .error e => .error e
      | .ok [n] =>
        match W.lookup n with
        | none => .error .other
        | some ch => descend fuel ch pkt'
      | .ok [] => if c.abstract then .error (.unrecognized pkt') else .ok pkt'
      | .ok _ => .error (.unrecognized pkt')

/-- relational specification: which outcome a container/packet pair has -/
inductive Decodes : Cont → Pkt → Except Err Pkt → Prop
  | entriesFail {c pkt e} : W.parseEntries c pkt = .error e → Decodes c pkt (.error e)
  | criteriaFail {c pkt pkt' e} : W.parseEntries c pkt = .ok pkt' →
      validChildren W pkt' c.inheritors = .error e → Decodes c pkt (.error e)
  | stop {c pkt pkt'} : W.parseEntries c pkt = .ok pkt' →
      validChildren W pkt' c.inheritors = .ok [] → c.abstract = false → Decodes c pkt (.ok pkt')
  | deadEnd {c pkt pkt'} : W.parseEntries c pkt = .ok pkt' →
      validChildren W pkt' c.inheritors = .ok [] → c.abstract = true →
      Decodes c pkt (.error (.unrecognized pkt'))
  | ambiguous {c pkt pkt' n m rest} : W.parseEntries c pkt = .ok pkt' →
      validChildren W pkt' c.inheritors = .ok (n :: m :: rest) →
      Decodes c pkt (.error (.unrecognized pkt'))
  | missing {c pkt pkt' n} : W.parseEntries c pkt = .ok pkt' →
      validChildren W pkt' c.inheritors = .ok [n] → W.lookup n = none → Decodes c pkt (.error .other)
  | step {c pkt pkt' n ch r} : W.parseEntries c pkt = .ok pkt' →
      validChildren W pkt' c.inheritors = .ok [n] → W.lookup n = some ch →
      Decodes ch pkt' r → Decodes c pkt r

/-- soundness: whatever the loop returns (other than running out of fuel) is the specified outcome -/
theorem descend_sound (fuel : Nat) (c : Cont) (pkt : Pkt) (r : Except Err Pkt)
    (h : descend W fuel c pkt = r) (hd : r ≠ .error .diverged) : Decodes W c pkt r := by
  induction fuel generalizing c pkt with
  | zero => simp [descend] at h; exact absurd h.symm hd
  | succ fuel ih =>
    unfold descend at h
    split at h
    · rename_i e he; subst h; exact .entriesFail he
    · rename_i pkt' hp
      split at h
      · rename_i e he; subst h; exact .criteriaFail hp he
      · rename_i n hv
        split at h
        · rename_i hl; subst h; exact .missing hp hv hl
        · rename_i ch hl; exact .step hp hv hl (ih ch pkt' h)
      · rename_i hv
        split at h
        · rename_i ha; subst h; exact .deadEnd hp hv ha
        · rename_i ha; subst h; exact .stop hp hv (by simpa using ha)
      · rename_i vs hne1 hne0 hv
        subst h
        match vs, hv, hne1, hne0 with
        | [], _, _, hne0 => exact absurd rfl hne0
        | [n], _, hne1, _ => exact absurd rfl (hne1 n)
        | n :: m :: rest, hv, _, _ => exact .ambiguous hp hv

/-- the specification is deterministic -/
theorem Decodes_det {c : Cont} {pkt : Pkt} {r₁ r₂ : Except Err Pkt}
    (h₁ : Decodes W c pkt r₁) (h₂ : Decodes W c pkt r₂) : r₁ = r₂ := by
  induction h₁ generalizing r₂ with
  | entriesFail he => cases h₂ <;> simp_all
  | criteriaFail hp he => cases h₂ <;> simp_all
  | stop hp hv ha => cases h₂ <;> simp_all
  | deadEnd hp hv ha => cases h₂ <;> simp_all
  | ambiguous hp hv => cases h₂ <;> simp_all
  | missing hp hv hl => cases h₂ <;> simp_all
  | step hp hv hl _ ih =>
    cases h₂ <;> simp_all
    rename_i h; exact ih h

#print axioms descend_sound
#print axioms Decodes_det
