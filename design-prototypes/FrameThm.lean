import Proto.Frame

theorem sumLen_flatten (src : List Bytes) : sumLen src = src.flatten.length := by
  induction src with
  | nil => rfl
  | cons c cs ih => simp [sumLen, ih]

/-- refill keeps the logical stream and, when enough data is pending, obtains `need` bytes -/
theorem refill_spec (need pos : Nat) (buf : Bytes) (src : List Bytes)
    (hne : ∀ c ∈ src, c ≠ []) (hpos : pos ≤ buf.length) :
    let r := refill need pos buf src
    r.1.drop pos ++ r.2.flatten = buf.drop pos ++ src.flatten ∧
    (∀ c ∈ r.2, c ≠ []) ∧ pos ≤ r.1.length ∧
    (need ≤ (buf.drop pos ++ src.flatten).length → need ≤ r.1.length - pos) := by
  induction src generalizing buf with
  | nil =>
    simp only [refill]
    exact ⟨trivial, hne, hpos, fun h => by simpa using h⟩
  | cons c cs ih =>
    have hc : c ≠ [] := hne c (by simp)
    have hcs : ∀ c ∈ cs, c ≠ [] := fun c' h' => hne c' (by simp [h'])
    unfold refill
    split
    · have : c.isEmpty = false := by simpa [List.isEmpty_iff] using hc
      simp only [this, Bool.false_eq_true, if_false]
      have ih' := ih (buf ++ c) hcs (by simp; omega)
      simp only at ih'
      obtain ⟨h1, h2, h3, h4⟩ := ih'
      refine ⟨?_, h2, h3, ?_⟩
      · rw [h1]; simp [List.drop_append_of_le_length hpos]
      · intro hn
        apply h4
        simpa [List.drop_append_of_le_length hpos, Nat.add_assoc] using hn
    · rename_i hlt
      simp only
      exact ⟨trivial, hne, hpos, fun _ => by omega⟩

def wfPkt (p : Bytes) : Prop := p.length = 6 + (be16 (p.take 6) + 1)

theorem take_eq_of_append_eq {α} {xs ys zs : List α} {n : Nat} (h : xs ++ ys = zs) (hn : n ≤ xs.length) :
    xs.take n = zs.take n := by
  rw [← h, List.take_append_of_le_length hn]

theorem stepBody_wf (skip : Nat) (buf0 : Bytes) (pos0 : Nat) (src : List Bytes) (parsed : Nat)
    (total : Option Nat) (pre p rest : Bytes)
    (hne : ∀ c ∈ src, c ≠ []) (hpos : pos0 ≤ buf0.length)
    (hrem : buf0.drop pos0 ++ src.flatten = pre ++ p ++ rest) (hpre : pre.length = skip) (hp : wfPkt p) :
    ∃ st', stepBody skip buf0 pos0 src parsed total = some (p, st') ∧
      st'.buf.drop st'.pos ++ st'.src.flatten = rest ∧ (∀ c ∈ st'.src, c ≠ []) ∧
      st'.pos ≤ st'.buf.length ∧ st'.parsed = parsed + skip + p.length ∧ st'.total = total := by
  have hp7 : 7 ≤ p.length := by unfold wfPkt at hp; omega
  obtain ⟨a1, a2, a3, a4⟩ := refill_spec (skip + 6) pos0 buf0 src hne hpos
  try simp only at a1 a2 a3 a4
  have a4' := a4 (by rw [hrem]; simp; omega)
  unfold stepBody
  simp only
  generalize refill (skip + 6) pos0 buf0 src = r1 at *
  rw [if_neg (by omega)]
  rw [hrem] at a1
  -- header bytes
  have hhdr : ((r1.1.drop (pos0 + skip)).take 6) = p.take 6 := by
    have h1 : (r1.1.drop pos0).take (skip + 6) = (pre ++ p ++ rest).take (skip + 6) :=
      take_eq_of_append_eq a1 (by simp; omega)
    have h2 : ((r1.1.drop pos0).take (skip + 6)).drop skip = ((pre ++ p ++ rest).take (skip + 6)).drop skip := by
      rw [h1]
    rw [List.drop_take, List.drop_take, List.drop_drop] at h2
    simp only [Nat.add_sub_cancel_left] at h2
    rw [h2, List.append_assoc, List.drop_append_of_le_length (by omega), ← hpre, List.drop_length]
    simp
    rw [List.take_append_of_le_length (by omega)]
  rw [hhdr, ← hp]
  -- second refill
  have hpos1 : pos0 + skip ≤ r1.1.length := by omega
  have hrem1 : r1.1.drop (pos0 + skip) ++ r1.2.flatten = p ++ rest := by
    have := congrArg (List.drop skip) a1
    rw [List.drop_append_of_le_length (by simp; omega), List.drop_drop] at this
    rw [this, List.append_assoc, List.drop_append_of_le_length (by omega), ← hpre, List.drop_length]
    simp
  obtain ⟨b1, b2, b3, b4⟩ := refill_spec p.length (pos0 + skip) r1.1 r1.2 a2 hpos1
  try simp only at b1 b2 b3 b4
  have b4' := b4 (by rw [hrem1]; simp)
  generalize refill p.length (pos0 + skip) r1.1 r1.2 = r2 at *
  rw [if_neg (by omega)]
  rw [hrem1] at b1
  refine ⟨{ buf := r2.1, pos := pos0 + skip + p.length, src := r2.2, parsed := parsed + skip + p.length, total := total }, ?_, ?_, b2, ?_, rfl, rfl⟩
  · congr 2
    have := take_eq_of_append_eq (n := p.length) b1 (by simp; omega)
    rw [this]; simp
  · simp only
    have := congrArg (List.drop p.length) b1
    rw [List.drop_append_of_le_length (by simp; omega), List.drop_drop] at this
    rw [this]; simp
  · simp only; omega

theorem trimBuf_drop (cfg : Cfg) (buf : Bytes) (pos : Nat) (h : pos ≤ buf.length) :
    (trimBuf cfg buf pos).1.drop (trimBuf cfg buf pos).2 = buf.drop pos ∧
    (trimBuf cfg buf pos).2 ≤ (trimBuf cfg buf pos).1.length := by
  unfold trimBuf; split <;> simp [h]

def encode : List (Bytes × Bytes) → Bytes
  | [] => []
  | (pre, p) :: xs => pre ++ p ++ encode xs

theorem stepBody_empty (skip : Nat) (buf0 : Bytes) (pos0 : Nat) (src : List Bytes) (parsed : Nat)
    (total : Option Nat) (hne : ∀ c ∈ src, c ≠ []) (hpos : pos0 ≤ buf0.length)
    (hrem : buf0.drop pos0 ++ src.flatten = []) :
    stepBody skip buf0 pos0 src parsed total = none := by
  obtain ⟨a1, _, a3, _⟩ := refill_spec (skip + 6) pos0 buf0 src hne hpos
  unfold stepBody
  simp only
  generalize refill (skip + 6) pos0 buf0 src = r1 at *
  rw [hrem] at a1
  have : (r1.1.drop pos0).length = 0 := by
    have := congrArg List.length a1; simp at this; simp; omega
  rw [if_pos (by simp at this; omega)]

theorem frame_exact (cfg : Cfg) (items : List (Bytes × Bytes))
    (hitems : ∀ x ∈ items, x.1.length = cfg.skip ∧ wfPkt x.2) (st : St)
    (hne : ∀ c ∈ st.src, c ≠ []) (hpos : st.pos ≤ st.buf.length)
    (hrem : st.buf.drop st.pos ++ st.src.flatten = encode items)
    (htot : ∀ T, st.total = some T → st.parsed + (encode items).length = T) :
    frame cfg st = items.map (·.2) := by
  induction items generalizing st with
  | nil =>
    have hs : step cfg st = none := by
      unfold step; split
      · rfl
      · obtain ⟨t1, t2⟩ := trimBuf_drop cfg st.buf st.pos hpos
        exact stepBody_empty _ _ _ _ _ _ hne t2 (by rw [t1]; exact hrem)
    rw [frame]; split
    · rfl
    · rename_i h; rw [hs] at h; contradiction
  | cons x xs ih =>
    obtain ⟨pre, p⟩ := x
    have hx := hitems (pre, p) (by simp)
    have hx1 : pre.length = cfg.skip := hx.1
    have hx2 : wfPkt p := hx.2
    have hp7 : 7 ≤ p.length := by unfold wfPkt at hx2; omega
    have hstop : stopNow st = false := by
      unfold stopNow
      split
      · rename_i t ht
        have := htot t ht
        simp [encode] at this
        simp; intro _; omega
      · rfl
    obtain ⟨t1, t2⟩ := trimBuf_drop cfg st.buf st.pos hpos
    obtain ⟨st', s1, s2, s3, s4, s5, s6⟩ := stepBody_wf cfg.skip _ _ st.src st.parsed st.total pre p (encode xs)
      hne t2 (by rw [t1, hrem]; simp [encode]) hx.1 hx.2
    have hs : step cfg st = some (p, st') := by
      unfold step; rw [hstop]; simpa using s1
    rw [frame]; split
    · rename_i h; rw [hs] at h; contradiction
    · rename_i pkt st'' h
      rw [hs] at h
      injection h with h; injection h with h1 h2
      subst h1 h2
      simp only [List.map_cons]
      congr 1
      apply ih (fun y hy => hitems y (by simp [hy])) st' s3 s4 s2
      intro T hT
      rw [s6] at hT
      have := htot T hT
      simp [encode] at this
      omega

#print axioms frame_exact
