/-! C12 prototype: segmented-packet state machine of `packet_generator` (repaired: group cleared at LAST) -/

inductive Flag | cont | first | last | unseg
deriving DecidableEq, Repr

structure Raw where
  id   : Nat        -- position in the history (unique)
  apid : Nat
  flag : Flag
  seq  : Nat
deriving DecidableEq, Repr

inductive Out
  | emit (parts : List Raw)      -- parsed as one packet made of these raw packets
  | hold                         -- stored, nothing yielded
  | drop (warn : Bool)           -- dropped
deriving DecidableEq, Repr

def consecutive : List Raw → Bool
  | a :: b :: rest => ((b.seq + 16384 - a.seq % 16384) % 16384 == 1) && consecutive (b :: rest)
  | _ => true

abbrev SegState := Nat → List Raw

def upd (s : SegState) (a : Nat) (g : List Raw) : SegState := fun b => if b = a then g else s b

/-- mirrors the if/elif chain at definitions.py:511-537 -/
def segStep (s : SegState) (r : Raw) : SegState × Out :=
  match r.flag with
  | .unseg => (s, .emit [r])
  | .first => (upd s r.apid [r], .hold)
  | .cont  => if (s r.apid).isEmpty then (s, .drop true) else (upd s r.apid (s r.apid ++ [r]), .hold)
  | .last  =>
    if (s r.apid).isEmpty then (s, .drop true)
    else
      let g := s r.apid ++ [r]
      if consecutive g then (upd s r.apid [], .emit g) else (upd s r.apid [], .drop true)

def segRun (s : SegState) : List Raw → List (Nat × Out)
  | [] => []
  | r :: rs => (r.apid, (segStep s r).2) :: segRun (segStep s r).1 rs

/-- the per-APID automaton of the property text: state = the open group (possibly empty) -/
def autoStep (g : List Raw) (r : Raw) : List Raw × Out :=
  match r.flag with
  | .unseg => (g, .emit [r])
  | .first => ([r], .hold)
  | .cont  => if g.isEmpty then (g, .drop true) else (g ++ [r], .hold)
  | .last  => if g.isEmpty then (g, .drop true)
              else if consecutive (g ++ [r]) then ([], .emit (g ++ [r])) else ([], .drop true)

def autoRun (g : List Raw) : List Raw → List Out
  | [] => []
  | r :: rs => (autoStep g r).2 :: autoRun (autoStep g r).1 rs

theorem segStep_same (s : SegState) (r : Raw) :
    (segStep s r).1 r.apid = (autoStep (s r.apid) r).1 ∧ (segStep s r).2 = (autoStep (s r.apid) r).2 := by
  unfold segStep autoStep
  cases r.flag <;> simp [upd] <;> (repeat' split) <;> simp_all [upd]

theorem segStep_other (s : SegState) (r : Raw) (a : Nat) (h : a ≠ r.apid) :
    (segStep s r).1 a = s a := by
  unfold segStep
  cases r.flag <;> simp [upd] <;> (repeat' split) <;> simp_all [upd]

/-- C12 interleaving independence: what APID `a` sees is what its own sub-history produces -/
theorem seg_per_apid (a : Nat) (s : SegState) (h : List Raw) :
    ((segRun s h).filter (·.1 = a)).map (·.2) = autoRun (s a) (h.filter (·.apid = a)) := by
  induction h generalizing s with
  | nil => simp [segRun, autoRun]
  | cons r rs ih =>
    simp only [segRun]
    by_cases hr : r.apid = a
    · subst hr
      obtain ⟨h1, h2⟩ := segStep_same s r
      simp [List.filter_cons, autoRun, ih, h1, h2]
    · have := segStep_other s r a (fun e => hr e.symm)
      simp [List.filter_cons, hr, ih, this]

#print axioms seg_per_apid
