#!/bin/sh
# Build the Lean model library, all proofs and the model driver from files on disk only (offline).
set -e
cd "$(dirname "$0")/lean"
lake build
test -x .lake/build/bin/sppmodel
echo ping | .lake/build/bin/sppmodel | grep -q pong
